#!/venv/bin/python
"""Entry point of every check:   ./check <id> --tier quick|thorough [--seed N] [--count N]
                                 ./check --replay <file>
                                 ./check selftest [--long]
Exit 0: property held on everything explored; 1: VIOLATION line(s) printed; 2: harness error.
"""
import argparse
import json
import os
import sys
import time

HERE = os.path.dirname(os.path.abspath(__file__))
sys.path.insert(0, HERE)

if os.environ.get('PYTHONHASHSEED') != '0' and not os.environ.get('VERIF_NO_REEXEC'):
    os.environ['PYTHONHASHSEED'] = '0'
    os.execv(sys.executable, [sys.executable] + sys.argv)

from sim import install, runner          # noqa: E402
import props                              # noqa: E402

COMPONENTS = {
    'real': ['cpppo.server.enip.main.main/enip_srv/enip_srv_tcp', 'cpppo.server.network.server_main/server_runner',
             'cpppo.server.enip.logix (process, setup, Logix)', 'cpppo.server.enip.ucmm.UCMM',
             'cpppo.server.enip.device (Object, Attribute, Message_Router, Connection_Manager)',
             'cpppo.server.enip.parser (all parsers/producers)', 'cpppo.automata',
             'cpppo.server.enip.client / get_attribute / poll (client worlds)', 'cpppo.history (HIST world)',
             'cpppo.server.tnet / tnetstrings (TNET world)', 'pylogix (interop world)'],
    'stub': ['socket (sim.simnet.SimSocket/Pipe)', 'select', 'clock (misc.timer and by-value copies)',
             'time.sleep', 'thread scheduling (baton-passing SimThread)', 'threading.Lock (SimLock)'],
    'oracle_side': ['ref.model (array model)', 'ref.refcodec (independent codec)', 'ref.linz (linearizability)'],
}


def load_known():
    p = os.path.join(HERE, 'known_findings.json')
    if not os.path.exists(p):
        return []
    with open(p) as f:
        return json.load(f).get('findings', [])


def match_known(prop, violation, known):
    """A violation matches a recorded finding when the class is the same and every key the
    finding names has the same value in the violation's key."""
    for k in known:
        if k.get('status') != 'known' or k.get('property') != prop:
            continue
        m = k.get('match', {})
        if m.get('cls') and m['cls'] != violation.get('cls'):
            continue
        key = violation.get('key') or {}
        if all(key.get(a) == b for a, b in (m.get('key') or {}).items()):
            return k
    return None


def summarize(prop, tier, seed, cfg, results, wall, violations_out, known_hits):
    ok = [r for r in results if not r.get('error')]
    nontriv = set()
    sigs = set()
    states = set()
    faults = {}
    probes = {}
    steps = switches = nevents = preempts = 0
    vtime = 0.0
    for r in ok:
        if r.get('nontrivial'):
            nontriv.add(r.get('digest'))
        sigs.add(r.get('sig'))
        for k, v in (r.get('faults') or {}).items():
            faults[k] = faults.get(k, 0) + v
        for k, v in (r.get('probes') or {}).items():
            probes[k] = probes.get(k, 0) + v
        for st in r.get('states') or ():
            states.add(st)
        steps += r.get('steps') or 0
        switches += r.get('switches') or 0
        nevents += r.get('nevents') or 0
        preempts += r.get('preempts') or 0
        vtime += r.get('vtime') or 0.0
    samples = []
    for r in ok:
        if r.get('sample') and r.get('nontrivial'):
            samples.append({'seed': r['seed'], 'digest': (r.get('digest') or '')[:16], 'steps': r.get('steps'),
                            'vtime_s': r.get('vtime'), 'faults': r.get('faults'), 'ops': r['sample'][:12]})
            if len(samples) >= 3:
                break
    if not samples:
        samples = [{'note': 'no non-trivial run in this batch'}]
    cov = dict(
        evaluations=len(results),
        distinct_nontrivial=len(nontriv),
        rule=cfg['rule'],
        samples=samples,
        runs_ok=len(ok),
        harness_errors=len(results) - len(ok),
        runs_per_hour=int(len(results) / wall * 3600) if wall > 0 else 0,
        simulated_seconds=round(vtime, 3),
        scheduler_decisions=steps,
        context_switches=switches,
        events=nevents,
        preemptions=preempts,
        distinct_schedule_signatures=len(sigs),
        distinct_abstract_states=len(states),
        faults_fired=faults,
        probes=probes,
        components=COMPONENTS,
        known_findings_hit=known_hits,
        exhaustive=False,
    )
    for k, v in (cfg.get('extra_cov') or {}).items():
        cov[k] = v
    repo_rev = None
    try:
        import subprocess
        repo_rev = subprocess.run(['git', '-C', install.REPO, 'rev-parse', '--short', 'HEAD'], capture_output=True, text=True).stdout.strip()
    except Exception:       # noqa: BLE001
        pass
    cov['repo_revision'] = repo_rev
    soak = os.path.join(HERE, 'soak', '%s.thorough.json' % prop)
    if tier != 'thorough' and os.path.exists(soak):
        # the last thorough run of this check (kept in soak/, committed): a pointer, not this run's coverage
        try:
            t = json.load(open(soak))
            cov['last_thorough_run'] = {'file': 'soak/%s.thorough.json' % prop, 'seed': t.get('seed'), 'evaluations': t['coverage'].get('evaluations'),
                                        'violations': t.get('violations'), 'wall_s': t.get('wall_s'),
                                        'repo_revision': t['coverage'].get('repo_revision')}
        except Exception:       # noqa: BLE001
            pass
    ev = dict(property_id=prop, tier=tier, seed=seed, level=cfg['level'], coverage=cov,
              assumptions=cfg.get('assumptions', []), wall_s=round(wall, 2), violations=len(violations_out))
    os.makedirs(os.path.join(HERE, 'evidence'), exist_ok=True)
    with open(os.path.join(HERE, 'evidence', '%s.json' % prop), 'w') as f:
        json.dump(ev, f, indent=1, default=repr)
    if tier == 'thorough' and os.path.realpath(install.REPO) == os.path.realpath('/repo'):
        os.makedirs(os.path.join(HERE, 'soak'), exist_ok=True)
        with open(soak, 'w') as f:
            json.dump(ev, f, indent=1, default=repr)
    return ev


def run_check(prop, tier, seed, count=None):
    cfg = props.PROPS[prop]
    t0 = time.time()
    install.install()
    props.load_worlds()
    known = load_known()
    tcfg = cfg[tier]
    results = []
    for part in tcfg['parts']:
        n = count if count is not None else part['count']
        params = dict(part.get('params') or {})
        params['tier'] = tier
        res = runner.run_batch(prop, part['world'], n, params, seed=seed, wall_budget=part.get('wall_budget'))
        for r in res:
            r['_world'] = part['world']
            r['_params'] = params
        results.extend(res)
    sweep_info = None
    if tcfg.get('sweep') and count is None:
        sw = tcfg['sweep']
        jobs, sweep_info = props.sweep_jobs(prop, sw, seed, runner)
        res = runner.run_batch(prop, sw['world'], len(jobs), {'tier': tier}, seed=seed, jobs=jobs)
        for r in res:
            r['_world'] = sw['world']
            r['_params'] = r.get('_jobparams') or {}
        sweep_info['runs'] = len(res)
        results.extend(res)
    errors = [r for r in results if r.get('error')]
    viol_runs = [r for r in results if r.get('violations')]
    violations_out = []
    known_hits = []
    seen_cls = {}
    # report at most a few violations per class; minimise each before reporting
    for r in viol_runs:
        for v in r['violations']:
            k = match_known(prop, v, known)
            if k is not None:
                if k['id'] not in [h['id'] for h in known_hits]:
                    known_hits.append({'id': k['id'], 'what': k['what'], 'runs': 1})
                else:
                    for h in known_hits:
                        if h['id'] == k['id']:
                            h['runs'] += 1
                continue
            c = v.get('cls')
            if seen_cls.get(c, 0) >= 1 or len(violations_out) >= 4:
                seen_cls[c] = seen_cls.get(c, 0) + 1
                continue
            seen_cls[c] = seen_cls.get(c, 0) + 1
            recs = r.get('tapes') or {}
            best, bres = runner.shrink(r['_world'], r['seed'], r['_params'], recs, c,
                                       budget_s=float(os.environ.get('VERIF_SHRINK_S', '25')), key=v.get('key') or {})
            rep = bres if bres is not None else r
            vv = v
            if bres is not None:
                for x in bres['violations']:
                    if x.get('cls') == c and (x.get('key') or {}) == (v.get('key') or {}):
                        vv = x
                        break
                k2 = match_known(prop, vv, known)
                if k2 is not None:
                    known_hits.append({'id': k2['id'], 'what': k2['what'], 'runs': 1})
                    continue
            path = runner.write_replay(prop, r['_world'], r['seed'], r['_params'], best, rep, vv)
            violations_out.append((vv, path))
    wall = time.time() - t0
    if sweep_info:
        cfg = dict(cfg, extra_cov=dict(cfg.get('extra_cov') or {}, sweep=sweep_info,
                                       exhaustive_over='every cut offset (and every two-way split) of the sampled streams only'))
    ev = summarize(prop, tier, seed, cfg, results, wall, violations_out, known_hits)
    for h in known_hits:
        print('KNOWN-FINDING: property=%s %s' % (prop, h['what']))
    for vv, path in violations_out:
        print('VIOLATION property=%s replay=%s' % (prop, path))
        print('  class=%s %s' % (vv.get('cls'), vv.get('msg')))
    for c, n in seen_cls.items():
        if n > 1:
            print('  (%d further violations of class %s not minimised)' % (n - 1, c))
    cov = ev['coverage']
    print('%s %s: %d runs (%d ok, %d harness errors), %d distinct non-trivial, %.0f runs/h, %.1f simulated s, '
          '%d violations, %d known findings, wall %.1fs' % (
              prop, tier, cov['evaluations'], cov['runs_ok'], cov['harness_errors'], cov['distinct_nontrivial'],
              cov['runs_per_hour'], cov['simulated_seconds'], len(violations_out), len(known_hits), wall))
    if errors:
        for r in errors[:5]:
            print('HARNESS-ERROR seed=%s %s' % (r.get('seed'), (r.get('error') or '')[-1500:]))
        if not violations_out:
            return 2
    if violations_out:
        return 1
    if cov['distinct_nontrivial'] < 2:
        print('HARNESS-ERROR: fewer than two distinct non-trivial runs; the check explored nothing')
        return 2
    return 0


def do_replay(path):
    install.install()
    props.load_worlds()
    ok, res, doc, same_cls, same_digest = runner.replay_file(path)
    print('replay %s: violation class %s, digest %s' % (
        path, 'reproduced' if same_cls else 'NOT reproduced', 'identical' if same_digest else 'DIFFERENT'))
    for v in res.get('violations', [])[:3]:
        print('  class=%s %s' % (v.get('cls'), v.get('msg')))
    if res.get('error'):
        print(res['error'])
        return 2
    if ok:
        print('VIOLATION property=%s replay=%s' % (doc['property'], path))
        return 1
    return 0


def main():
    ap = argparse.ArgumentParser()
    ap.add_argument('prop', nargs='?')
    ap.add_argument('--tier', default=os.environ.get('VERIF_TIER', 'quick'))
    ap.add_argument('--seed', type=int, default=None)
    ap.add_argument('--count', type=int, default=None)
    ap.add_argument('--replay')
    ap.add_argument('--long', action='store_true')
    a = ap.parse_args()
    if a.replay:
        sys.exit(do_replay(a.replay))
    if a.prop == 'selftest':
        import selftest
        sys.exit(selftest.main(long=a.long))
    seed = a.seed
    if seed is None:
        seed = int(os.environ.get('VERIF_SEED', '0') or 0)
    if a.prop not in props.PROPS:
        print('unknown property %r; known: %s' % (a.prop, ' '.join(sorted(props.PROPS))))
        sys.exit(2)
    sys.exit(run_check(a.prop, a.tier, seed, a.count))


if __name__ == '__main__':
    main()
