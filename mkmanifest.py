#!/usr/bin/env python3
"""Regenerate MANIFEST.json from props.py (claimed checks) and the not-applicable table below."""
import json, os, sys
HERE = os.path.dirname(os.path.abspath(__file__))
sys.path.insert(0, HERE)
import props

NA = {
    'C01': 'pure codec round trip over field values: no schedule, clock, fault, stream or shared state in the statement; seeded simulation would be input generation under another name (DESIGN.md section 6)',
    'C11': 'equivalence of a compiled automaton with regular-expression semantics over (expression x string): a pure function of its input (DESIGN.md section 6)',
    'C16': 'single-threaded in-memory container (dotdict): histories of calls on one object with no concurrency, time or I/O (DESIGN.md section 6)',
    'C17': 'timestamp/duration render/parse/compare are pure functions of (instant, zone, precision) (DESIGN.md section 6)',
    'C19': 'merge/shatter are pure functions of a list of ranges (DESIGN.md section 6)',
}
ALL = ['C%02d' % i for i in range(1, 21)]

checks = []
for pid in sorted(props.PROPS):
    c = props.PROPS[pid]
    checks.append(dict(
        property_id=pid,
        quick_cmd='./check %s --tier quick' % pid,
        thorough_cmd='./check %s --tier thorough' % pid,
        evidence_file='/verif/evidence/%s.json' % pid,
        replay_cmd_template='./check --replay {path}',
        engine='dst',
        level_claimed=dict(category=c['level'], text=c.get('level_text', c['rule']), design_ref=c.get('design_ref', 'DESIGN.md section 4 (%s)' % pid)),
        level_note=c.get('level_note', 'Sampling, not proof. Trusted: the simulator (sim/), the array model and reference codec (ref/), CPython. ' + '; '.join(c.get('assumptions', []))),
        technique=c.get('technique', 'deterministic simulation with fault injection: seeded schedule/network/fault search against an executable reference model'),
    ))
na = []
for pid in ALL:
    if pid in props.PROPS:
        continue
    reason = NA.get(pid) or 'check not built yet in this round (planned: DESIGN.md section 4)'
    na.append(dict(property_id=pid, reason=reason))
doc = dict(
    version=1,
    setup_cmd='./setup.sh',
    hooks=dict(guard='CPPPO_VERIF', enable='none needed: every seam is a module-level name rebound after import (DESIGN.md 2.1); the guard names no code in /repo',
               baseline_off_cmd='cd /repo && /venv/bin/python -m pytest -ra -q -p no:cacheprovider --timeout=900 --continue-on-collection-errors',
               source_commits=[], add_only=True),
    engines=[dict(name='dst', path='/verif/sim', serves_properties=sorted(props.PROPS),
                  kind_free_text='deterministic simulation: baton-passing scheduler over real threads, virtual clock, simulated TCP with fault injection, decision tapes with shrinking and replay files')],
    checks=checks,
    not_applicable=na,
    notes='See DESIGN.md. Exit codes: 0 held, 1 VIOLATION, 2 harness error.',
)
with open(os.path.join(HERE, 'MANIFEST.json'), 'w') as f:
    json.dump(doc, f, indent=1)
print('MANIFEST.json: %d checks, %d not applicable' % (len(checks), len(na)))
