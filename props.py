"""Per-property check configuration: which worlds run, how many seeds per tier, evidence rule."""

_loaded = False


def load_worlds():
    global _loaded
    if _loaded:
        return
    import worlds.enip_seq          # noqa: F401
    _loaded = True


PROPS = {
    'C03': dict(
        level='exploration',
        rule=('one seed -> tag set (1..6 tags over 13 element types, scalar/array, auto-placed or bound to '
              '@class/instance/attribute, aliases), reply budget, 1..3 sessions (some connected via Forward Open), '
              '5..60 requests (Read/Write Tag [Fragmented], Get/Set Attribute Single; by name in any case, alias or '
              'numeric address; every written value unique), segmentation/latency/short reads and which session '
              'issues next; a run is non-trivial when >= 3 requests were accepted and compared with the model; '
              'distinct = distinct event-log digest'),
        assumptions=['array model (ref/model.py) encodes C03 as stated', 'reference codec decodes replies independently of cpppo'],
        quick=dict(parts=[dict(world='c03', count=320)]),
        thorough=dict(parts=[dict(world='c03', count=12000)]),
    ),
}
