"""Per-property check configuration: which worlds run, how many seeds per tier, evidence rule."""

_loaded = False


def load_worlds():
    global _loaded
    if _loaded:
        return
    import worlds.enip_seq          # noqa: F401
    import worlds.enip_proto        # noqa: F401
    import worlds.enip_conc         # noqa: F401
    import worlds.enip_hostile      # noqa: F401
    import worlds.stream            # noqa: F401
    import worlds.hist              # noqa: F401
    import worlds.enip_client       # noqa: F401
    import worlds.enip_interop      # noqa: F401
    _loaded = True


PROPS = {
    'C03': dict(
        level='exploration',
        rule=('one seed -> tag set (1..6 tags over 13 element types, scalar/array, auto-placed or bound to '
              '@class/instance/attribute, aliases), reply budget, 1..3 sessions (some connected via Forward Open), '
              '5..60 requests (Read/Write Tag [Fragmented], Get/Set Attribute Single; by name in any case, alias or '
              'numeric address; every written value unique), segmentation/latency/short reads and which session '
              'issues next; a run is non-trivial when >= 3 requests were accepted and compared with the model; '
              'distinct = distinct event-log digest'),
        assumptions=['array model (ref/model.py) encodes C03 as stated', 'reference codec decodes replies independently of cpppo'],
        quick=dict(parts=[dict(world='c03', count=320)]),
        thorough=dict(parts=[dict(world='c03', count=12000)]),
    ),
    'C04': dict(
        level='exploration',
        rule=('one seed -> 2..4 fixed-size tags (element sizes 1/2/4/8), reply budget drawn small (3..64) or default, '
              '2..8 transfers: a walker issues Read Tag Fragmented with the offset advanced by the bytes received until '
              'status 0x00, optionally after a writer tiled the same range with Write Tag Fragmented pieces of '
              'tape-chosen sizes; another session writes other tags between fragments; non-trivial = >= 2 transfers '
              'driven to completion; distinct = distinct event-log digest'),
        assumptions=['fragment invariants are taken from the C04 statement, the concatenation from the array model'],
        quick=dict(parts=[dict(world='c04', count=320)]),
        thorough=dict(parts=[dict(world='c04', count=12000)]),
    ),
    'C05': dict(
        level='exploration',
        rule=('C03-style histories on two sessions with boundary requests (index len-1/len/len+1, counts 0/len/len+1, '
              'misaligned and too-large offsets), unknown tag/object/attribute, every (request type, tag type) pair '
              'and widest-range values written into narrower tags; after every request the in-process state must equal '
              'the model (unchanged on refusal), the other session is probed, and at the end every tag is read back '
              'completely; non-trivial = >= 1 refusal and >= 2 accepted requests compared'),
        assumptions=['array model encodes the documented status codes of C05'],
        quick=dict(parts=[dict(world='c05', count=320)]),
        thorough=dict(parts=[dict(world='c05', count=12000)]),
    ),
    'C06': dict(
        level='exploration',
        rule=('one seed -> 1..4 concurrent sessions, each 3..30 frames mixing Register, List Services/Identity/Interfaces, '
              'SendRRData with every tag/attribute service (valid, CIP-refused), unsupported service, unroutable request, '
              'bundles of 1..8, Forward Open/Close + SendUnitData, Unregister; unique 8-byte sender contexts incl. all-zero/0xFF; '
              'pipelining depth 1..32 (frames optionally coalesced into one send); a ledger over each session pairs the '
              'k-th reply with the k-th request expecting one; non-trivial = >= 3 replies paired'),
        assumptions=['each session writes only its own tags so its expected replies are schedule independent'],
        quick=dict(parts=[dict(world='c06', count=320)]),
        thorough=dict(parts=[dict(world='c06', count=12000)]),
    ),
    'C07': dict(
        level='exploration',
        rule=('one seed -> pre-state by a few writes, 1..4 twin executions of 1..12 member requests (reads, writes, '
              'fragmented and attribute services, valid and CIP-refused, missing attribute): once as a Multiple Service '
              'Packet, then, after restoring the pre-state, one by one; member replies compared byte for byte, tag state '
              'compared, both compared with the model, offset table strict-decoded; in 4 of 7 runs 1..3 noise sessions '
              'send their own bundles on disjoint tags with line-level pre-emption in the deferred-closure code; '
              'non-trivial = >= 2 members compared'),
        assumptions=['harness privilege: tag contents restored by direct assignment between the twin executions'],
        quick=dict(parts=[dict(world='c07', count=240)]),
        thorough=dict(parts=[dict(world='c07', count=8000)]),
    ),
    'C15': dict(
        level='exploration',
        rule=('one seed -> personality (none / --simple / --route-path as port/link, JSON list, IP-address link through the '
              'real main() argument path / multi-segment UCMM subclass) x 4..24 requests of all services and bundles carrying '
              'no wrapper, empty route path, the configured path, or one differing in port, link, link kind or length; '
              'accepted iff the C15 table says so; refused requests must leave the in-process state untouched; '
              'non-trivial = >= 3 accept/refuse decisions'),
        assumptions=['the accept/refuse table is taken from the C15 statement'],
        quick=dict(parts=[dict(world='c15', count=400)]),
        thorough=dict(parts=[dict(world='c15', count=16000)]),
    ),
    'C02': dict(
        level='fault_enumeration',
        rule=('one seed -> a stream of 1..8 frames (writes with unique values, reads, bundles, List*) after Register. '
              'mode seg: executed as-sent, pre-state restored, then the same bytes delivered byte-at-a-time / random k-way / '
              'cut inside headers and length fields / coalesced; replies must be byte-identical (session handle masked) and '
              'match the model.  mode cut: exactly k bytes delivered then FIN / RST / silence; replies exactly for complete '
              'frames, state = model with exactly the complete frames applied, server closes, a prober and a concurrent '
              'second session keep being served.  thorough tier sweeps every cut offset and every two-way split of sampled '
              'streams; non-trivial = stream longer than one header'),
        assumptions=['RST is injected only after the server consumed the delivered prefix (a reset may discard unread bytes)'],
        quick=dict(parts=[dict(world='c02', count=400)]),
        thorough=dict(parts=[dict(world='c02', count=10000)], sweep=dict(world='c02', streams=24)),
    ),
    'C09': dict(
        level='exploration',
        rule=('one seed -> 1..3 short tags (<= 8 elements, wide types), 2..5 concurrent sessions (some connected), 3..8 requests '
              'each: multi-element writes with unique values, multi-element reads, fragmented and attribute services, bundles, '
              'on overlapping and private element ranges; scheduler policy (sticky/random/PCT), 0..3 line-level pre-emptions in '
              'the request path (half of the runs focused on Attribute/Logix.request/dfa_post code), segmentation and latency '
              'from the tape; invoke/return stamped with global event numbers; the recorded history plus a final read-back is '
              'checked for linearizability against the array model (bundle members individually atomic, in order); '
              'non-trivial = >= 4 requests, >= 2 on shared ranges, checker decided.  Second part "storm": every session sends '
              'bundles at once, pre-emption confined to the deferred member parsing (terminate/closure) and a thread releasing a '
              'shared lock is held back there in 1 of 3 releases.  Third part "cold": 3..12 auto-placed tags, no barrier -- the '
              'sessions\' first requests meet the lazy set-up (logix.setup / setup_tag) with 2..8 pre-emptions at small gaps inside '
              'setup_tag; besides the history check, no two configured tags may end up on one attribute.  Fourth part "rw": half of '
              'the sessions only read one whole tag, the others only write all of it; pre-emption confined to the storage '
              'accessors and to the element encoders while they encode tag data (between "executed" and "reply encoded")'),
        assumptions=['linearizability search capped at 2e5 nodes; a cap hit is counted as undecided, never as pass or fail'],
        quick=dict(parts=[dict(world='c09', count=600), dict(world='c09', count=160, params={'storm': True}),
                          dict(world='c09', count=240, params={'cold': True}), dict(world='c09', count=160, params={'rw': True})]),
        thorough=dict(parts=[dict(world='c09', count=20000), dict(world='c09', count=5000, params={'storm': True}),
                             dict(world='c09', count=6000, params={'cold': True}), dict(world='c09', count=5000, params={'rw': True})]),
    ),
    'C08': dict(
        level='exploration',
        rule=('one seed -> an attacker session sends 3..14 frames: valid frames of every kind mutated blindly (bit flips, '
              'insert/delete/truncate, random bytes, frame twice) or structure-aware (an inconsistent value in one of the '
              'length/count/offset/size/type fields at any nesting level: encapsulation, CPF, Unconnected Send, EPATH, bundle '
              'offsets, element counts, Forward Open), whole or chunked, reconnecting when dropped; a victim session runs '
              'model-checked traffic concurrently, a prober opens fresh sessions.  Oracles: calls executed by the handling '
              'thread <= 4e5 + 6000 x bytes (deterministic count, about 16x the worst valid request), thread returns to waiting '
              'or ends, no exception leaves a server thread, listener alive, any tag change equals the effect of some subset '
              '(in order) of the complete frames in the delivered byte stream read leniently; non-trivial = >= 3 attacks'),
        assumptions=['work bound calibrated on valid traffic (max observed ~400 calls/byte)',
                     'a change is explained by a lenient reading of the frame: inconsistent size fields are tolerated as long '
                     'as service, path, type and values can be read off in order'],
        quick=dict(parts=[dict(world='c08', count=480)]),
        thorough=dict(parts=[dict(world='c08', count=16000)]),
    ),
    'C10': dict(
        level='exploration',
        rule=('one seed -> 4..16 cases: a library machine (11 elementary types, SSTRING, STRING, EPATH, EPATH_padded, status, '
              'typed_data, CPF and item parsers, unconnected_send, enip_machine, CIP, octets, words, service request machines via '
              'Object.parser) fed a reference-encoded element + tail through a chainable source that receives one tape-chosen '
              'block at a time (whole / byte-at-a-time / random / two-way), with an integer, data-path or callable limit in '
              '{0, half, exact-1, exact, exact+1, beyond}, a repeat count in {0,1,2,3,5} (int or data path), or EOF / a chained '
              'non-iterable mid-element.  Independent accounting: source.sent == supplied - left, bytes left == input[sent:], '
              'success => consumed <= limit, repeat=N => exactly N elements, identical outcome for every arrival schedule; '
              'non-trivial = >= 4 cases'),
        assumptions=['the (machine x limit x input) dimension is sampled, not enumerated; simulation adds the arrival / push-back / EOF dimension',
                     'empty blocks are not chained (the real receive loops never chain one)'],
        quick=dict(parts=[dict(world='c10', count=1600)]),
        thorough=dict(parts=[dict(world='c10', count=80000)]),
    ),
    'C20': dict(
        level='exploration',
        rule=('one seed -> (a) 1..10 values (integers incl. 1e30, bytes that look like sizes/colons/type tags, empty and 1e4-byte '
              'payloads, multi-byte text, null) serialised with tnetstrings.dump (gate: parse(dump(v)) == v), each + arbitrary tail '
              'fed to tnet_machine under a tape-chosen arrival schedule: payload == v, consumed == len(dump(v)), tail untouched; '
              '(b) 1..6 values sent to tnet_from over a simulated socket, chunked with gaps up to 3 simulated s, ignore '
              'separators, timeout/latency settings, optional EOF inside the last message: exactly the values in order, None only '
              'after a gap >= timeout, nothing for the cut message; non-trivial = >= 2 values compared'),
        assumptions=['the pure dump/parse round trip (first sentence of C20) is used only as a gate for reference values, not claimed'],
        quick=dict(parts=[dict(world='c20', count=1200)]),
        thorough=dict(parts=[dict(world='c20', count=60000)]),
    ),
    'C18': dict(
        level='exploration',
        rule=('one seed -> a history of 1..200 records (ms grid; equal or increasing timestamps) written by the real logger into '
              '1..13 files in log-rotation naming (natural sort incl. .10 vs .2), some gz/bz2 (copy beside or instead of the plain '
              'file), with comments, blank lines, notes, null and bad-JSON records and torn last lines after each file\'s first '
              'record; loader start before/at/inside/after the history, factor 0.1..1000, look-ahead None..3600, limit None/1/3/1000; '
              'the schedule is a tape-driven sequence of clock advances (sub-ms .. several files) and drains (load(limit) until no '
              'event); oracle over the recorded (call time, events): delivered == prefix of the log from the starting file, never '
              'early, never late, COMPLETE within three drains after the end, final register map; non-trivial = >= 1 record delivered'),
        assumptions=['the starting file is the newest file whose first record is at or before the historical time of the first load (1 ms tolerance)',
                     'the file system is passive (no concurrent writer is part of C18); the clock is the seam'],
        quick=dict(parts=[dict(world='c18', count=1600)]),
        thorough=dict(parts=[dict(world='c18', count=100000)]),
    ),
    'C12': dict(
        level='exploration',
        rule=('one seed -> 3..30 textual operations rendered from structured ops (Tag[a-b], Tag[a]*n, Tag*n, @c/i/a in hex/decimal, '
              '+offset, =(TYPE)v,..., attribute services through attribute_operations, CIP-refused operations anywhere, per-operation '
              'route paths) handed to the real parse_operations and connector.operate; the same list runs from the same pre-state under '
              '2..4 configurations drawn from {synchronous, depth 1,2,5,17} x {multiple 0,100,250,500,4000} x {fragment on/off}; every '
              'configuration must yield one result per operation, in order, equal to the model evaluated on the structured op and equal '
              'across configurations, with equal final tag state; the wire tap checks that bundles keep operation order and never mix '
              'route paths; non-trivial = >= 4 results compared under >= 2 configurations'),
        assumptions=['pre-state restored by direct assignment between configurations (harness privilege)',
                     'the pure format_path/parse_path round trip (second sentence of C12) is exercised only as far as the workload spells it'],
        quick=dict(parts=[dict(world='c12', count=200)]),
        thorough=dict(parts=[dict(world='c12', count=8000)]),
    ),
    'C13': dict(
        level='fault_enumeration',
        rule=('one seed -> tags pre-loaded with a unique value per element, 2..12 reads of distinct ranges through connector.pipeline '
              '(depth 1..8, multiple 0/250/500), connector.synchronous, or proxy.read inside poll.run; the client connection gets one '
              'fault: server->client stream cut at byte k then FIN / RST / silence, a whole reply lost, client->server cut, latency '
              'beyond the timeout, or none; proxy mode: faults on every connection until a heal instant.  Oracles: every yielded '
              'result equals the model for its own index, no more results than completely delivered replies, all results or an '
              'exception (never a silent short list), after a failed poll the proxy holds no gateway, after the heal a complete '
              'correct poll over a newly registered session within 120 simulated s; thorough tier sweeps every cut offset of sampled '
              'exchanges; non-trivial = the fault fired (or none configured) and >= 1 result/poll.  World c13s: 2..3 poll.run '
              'threads share ONE proxy (documented deployment); replies late by 0.7..3 timeouts, lost, cut; pollers are pre-empted or '
              'stalled (virtual time lost) at lines of proxy.__exit__/close_gateway/client.close; every value handed to a poller must '
              'be the model value of its own parameter, and after the heal every poller completes a correct poll within 150 s'),
        assumptions=['client timeouts, poll cycle and back-off run on the virtual clock',
                     'c13s: a stalled thread loses 2 ms .. 2.5 s of virtual time at a line of the proxy/client release path'],
        quick=dict(parts=[dict(world='c13', count=320), dict(world='c13s', count=240)]),
        thorough=dict(parts=[dict(world='c13', count=8000), dict(world='c13s', count=6000)], sweep=dict(world='c13', streams=16)),
    ),
    'C14': dict(
        level='exploration',
        rule=('(A) one seed -> unmodified pylogix.PLC on a sim-thread (its socket module bound to the simulated network; client->server '
              'bytes re-segmented arbitrarily, server->pylogix frames cut only after the length field): connect (Register + large '
              'Forward Open, falling back to small), 4..25 calls: Read(tag[i], n), Write(tag[i], values), list reads (multi-service), '
              'arrays larger than one reply (fragment walk), out-of-range and unknown tags, over SINT..ULINT, REAL, LREAL, scalar BOOL; '
              'values/success equal the array model; Close(): Forward Close answered, Unregister not answered, connection thread ended, '
              'no entry left in Connection_Manager.forwards.  (B) the C03 histories with strict reference decoding of every reply over '
              'connected and unconnected sessions; non-trivial = >= 3 calls compared and a clean close'),
        assumptions=['pylogix 1.1.6 as installed in /venv is the independent client', 'pylogix BOOL arrays (packed DWORDs) are not driven'],
        quick=dict(parts=[dict(world='c14', count=320), dict(world='c03', count=120)]),
        thorough=dict(parts=[dict(world='c14', count=16000), dict(world='c03', count=6000)]),
    ),
}


def sweep_jobs(prop, sw, seed, runner):
    """Fault enumeration for the thorough tier: sample `streams` seeds, learn each stream's length from a
    baseline run, then enumerate every cut offset (x every fault kind) and, for C02, every two-way split."""
    from sim.tape import mix
    seeds = [mix(seed, prop, 'sweep', i) for i in range(sw['streams'])]
    jobs = []
    info = {'streams': 0, 'offsets': 0, 'splits': 0, 'lengths': []}
    if prop == 'C02':
        base = runner.run_batch(prop, sw['world'], 0, {'tier': 'thorough'}, jobs=[(sd, {'mode': 'cut', 'cut': 0, 'how': 'FIN'}) for sd in seeds])
        for sd, r in zip(seeds, base):
            n = (r.get('notes') or {}).get('stream_len') or 0
            if r.get('error') or not n or n > 700:
                continue
            info['streams'] += 1
            info['lengths'].append(n)
            for k in range(0, n + 1):
                for how in ('FIN', 'RST', 'STALL'):
                    jobs.append((sd, {'mode': 'cut', 'cut': k, 'how': how}))
                    info['offsets'] += 1
            for sp in range(1, n):
                jobs.append((sd, {'mode': 'seg', 'split': sp}))
                info['splits'] += 1
    elif prop == 'C13':
        for drv in ('pipeline', 'synchronous'):
            base = runner.run_batch(prop, sw['world'], 0, {'tier': 'thorough'}, jobs=[(sd, {'mode': drv, 'kind': 'NONE'}) for sd in seeds])
            for sd, r in zip(seeds, base):
                n = (r.get('notes') or {}).get('reply_len') or 0
                if r.get('error') or not n or n > 1500:
                    continue
                info['streams'] += 1
                info['lengths'].append(n)
                for k in range(0, n + 1):
                    for kind in ('FIN', 'RST', 'STALL'):
                        jobs.append((sd, {'mode': drv, 'kind': kind, 'cut': k}))
                        info['offsets'] += 1
    return jobs, info
