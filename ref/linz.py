"""Linearizability checker (Wing & Gong search with Lowe-style memoisation) against the array model.

History entry: dict(inv=<event seq>, ret=<event seq>, sess=<id>, op=<structured op>, obs=<observed
reply bytes>, after=<index of an entry that must be linearised first, or None>).

An entry may only be linearised after every entry that returned before it was invoked (real-time
order) and after its explicit predecessor (members of one bundle, in order).  At its linearisation
point the model must produce exactly the observed reply.
"""

from .model import Model


class Undecided(Exception):
    pass


def check(history, model, reply_of, max_nodes=200000):
    """history: list of entries; model: Model in the initial state (will be restored);
    reply_of(model, op) -> comparable predicted reply (applies the op to the model).
    Returns (ok, info).  Raises Undecided when the node budget is exhausted."""
    n = len(history)
    if n == 0:
        return True, {'nodes': 0}
    if n > 62:
        raise Undecided('history too long (%d)' % n)
    preds = []
    for i, e in enumerate(history):
        m = 0
        for j, f in enumerate(history):
            if j != i and f['ret'] < e['inv']:
                m |= 1 << j
        if e.get('after') is not None:
            m |= 1 << e['after']
        preds.append(m)
    full = (1 << n) - 1
    init = model.snapshot()
    seen = set()
    nodes = [0]
    best = [0, None]

    # iterative DFS; each frame: (done mask, snapshot, iterator over candidates)
    def candidates(done):
        out = []
        for i in range(n):
            if not (done >> i) & 1 and (preds[i] & done) == preds[i]:
                out.append(i)
        return out

    stack = [(0, init, candidates(0), 0, [])]
    while stack:
        done, snap, cands, k, order = stack[-1]
        if done == full:
            model.restore(init)
            return True, {'nodes': nodes[0], 'order': order}
        if k >= len(cands):
            stack.pop()
            continue
        stack[-1] = (done, snap, cands, k + 1, order)
        i = cands[k]
        nodes[0] += 1
        if nodes[0] > max_nodes:
            model.restore(init)
            raise Undecided('node budget %d exhausted' % max_nodes)
        model.restore(snap)
        pred = reply_of(model, history[i]['op'])
        if pred != history[i]['obs']:
            continue
        nd = done | (1 << i)
        key = (nd, model.state_key())
        if key in seen:
            continue
        seen.add(key)
        cnt = bin(nd).count('1')
        if cnt > best[0]:
            best[0] = cnt
            best[1] = order + [i]
        stack.append((nd, model.snapshot(), candidates(nd), 0, order + [i]))
    model.restore(init)
    return False, {'nodes': nodes[0], 'longest_prefix': best[1] or []}
