"""Array model of the simulator's tags: the oracle for every ENIP world.

Written from the property statements (C03-C05, C07) and the documented status codes; shares no
code with cpppo.  A tag is a fixed-length typed array; several names / numeric addresses may refer
to the same storage.
"""
import struct

from .refcodec import TYPE_CODE, TYPES, INT_RANGE

RANGE_ERR = (0xFF, (0x2105,))
TYPE_ERR = (0xFF, (0x2107,))
NOT_FOUND = (0x05, (0x0000,))

INTS = ('SINT', 'INT', 'DINT', 'LINT', 'USINT', 'UINT', 'UDINT', 'ULINT')
STRINGS = ('SSTRING', 'STRING')

# Documented compatibility of a Write Tag's declared data type with the tag's own type.
ALLOWED = {
    'BOOL': ('BOOL',),
    'LREAL': ('BOOL', 'SINT', 'USINT', 'INT', 'UINT', 'DINT', 'UDINT', 'REAL', 'LREAL'),
    'REAL': ('BOOL', 'SINT', 'USINT', 'INT', 'UINT', 'DINT', 'UDINT', 'REAL'),
    'LINT': ('BOOL', 'SINT', 'USINT', 'INT', 'UINT', 'DINT', 'UDINT', 'LINT', 'ULINT'),
    'ULINT': ('BOOL', 'USINT', 'UINT', 'UDINT', 'ULINT'),
    'DINT': ('BOOL', 'SINT', 'USINT', 'INT', 'UINT', 'DINT', 'UDINT'),
    'UDINT': ('BOOL', 'USINT', 'UINT', 'UDINT'),
    'INT': ('BOOL', 'SINT', 'USINT', 'INT', 'UINT'),
    'UINT': ('BOOL', 'USINT', 'UINT'),
    'SINT': ('BOOL', 'SINT', 'USINT'),
    'USINT': ('BOOL', 'USINT'),
    'SSTRING': ('SSTRING',),
    'STRING': ('STRING',),
}


def elem_size(tname):
    """Bytes per element for reply budgeting (strings use the library's documented estimate)."""
    if tname in STRINGS:
        return 80
    return TYPES[TYPE_CODE[tname]][2]


def f32(v):
    return struct.unpack('<f', struct.pack('<f', v))[0]


def representable(tname, v):
    """Can value v be held by (and read back from) an element of type tname?"""
    if tname in STRINGS:
        return isinstance(v, str) and len(v) < (256 if tname == 'SSTRING' else 65536)
    if tname == 'BOOL':
        return True
    if tname in INT_RANGE:
        if isinstance(v, (float, str)):
            return False
        lo, hi = INT_RANGE[tname]
        return lo <= int(v) <= hi
    if isinstance(v, str):
        return False
    if tname == 'REAL':
        try:
            struct.pack('<f', v)
            return True
        except (OverflowError, struct.error):
            return False
    return True


def convert(tname, v):
    """The written value as represented in the tag's type."""
    if tname == 'BOOL':
        return bool(v)
    if tname in INT_RANGE:
        return int(v)
    if tname == 'REAL':
        return f32(float(v))
    if tname == 'LREAL':
        return float(v)
    return v


class Tag(object):
    __slots__ = ('name', 'tname', 'length', 'sid', 'addr')

    def __init__(self, name, tname, length, sid, addr):
        self.name, self.tname, self.length, self.sid, self.addr = name, tname, length, sid, addr

    def spec(self):
        """The command-line form understood by the simulator."""
        nm = self.name
        if self.addr is not None:
            nm += '@%d/%d/%d' % self.addr
        return '%s=%s[%d]' % (nm, self.tname, self.length) if self.length != 1 or self.addr is None \
            else '%s=%s[%d]' % (nm, self.tname, self.length)


class Expected(object):
    """What a reply must be.  status/ext exact unless any_error (then: any non-zero status)."""
    __slots__ = ('status', 'ext', 'tname', 'values', 'raw', 'any_error', 'unknown', 'wrote')

    def __init__(self, status=0, ext=(), tname=None, values=None, raw=None, any_error=False,
                 unknown=False, wrote=None):
        self.status, self.ext, self.tname, self.values = status, tuple(ext), tname, values
        self.raw, self.any_error, self.unknown, self.wrote = raw, any_error, unknown, wrote

    def ok(self):
        return not self.any_error and not self.unknown and self.status in (0x00, 0x06)

    def describe(self):
        if self.unknown:
            return 'UNKNOWN-TARGET'
        if self.any_error:
            return 'ANY-ERROR'
        return 'st=0x%02x ext=%s %s %r' % (self.status, list(self.ext), self.tname,
                                           self.values if self.values is None or len(self.values) < 12
                                           else self.values[:12] + ['...'])


def err(pair):
    return Expected(status=pair[0], ext=pair[1])


class Model(object):
    def __init__(self, budget=488, strict_extent=True):
        self.tags = {}          # lower-case name -> Tag
        self.store = {}         # sid -> list of values
        self.stype = {}         # sid -> tname
        self.addr = {}          # (cls, ins, att) -> sid
        self.objects = set()    # (cls, ins) that exist because a tag lives there
        self.budget = budget
        self.next_sid = 0
        # strict_extent: a request whose declared range [i, i+n) reaches beyond the tag is refused
        # even when the fragment actually transferred would fit (C05 first sentence).
        self.strict_extent = strict_extent

    # ------------------------------------------------------------- construction
    def add_tag(self, name, tname, length, addr=None):
        if addr is not None and addr in self.addr:
            sid = self.addr[addr]
            assert self.stype[sid] == tname and len(self.store[sid]) == length
        else:
            sid = self.next_sid
            self.next_sid += 1
            zero = '' if tname in STRINGS else (0.0 if tname in ('REAL', 'LREAL') else (False if tname == 'BOOL' else 0))
            self.store[sid] = [zero] * length
            self.stype[sid] = tname
            if addr is not None:
                self.addr[addr] = sid
                self.objects.add(addr[:2])
        t = Tag(name, tname, length, sid, addr)
        self.tags[name.lower()] = t
        return t

    def bind_auto(self, name, addr):
        """Record the numeric address the simulator allocated for an auto-placed tag."""
        t = self.tags[name.lower()]
        t.addr = addr
        self.addr[addr] = t.sid
        self.objects.add(addr[:2])

    def snapshot(self):
        return {sid: list(v) for sid, v in self.store.items()}

    def restore(self, snap):
        self.store = {sid: list(v) for sid, v in snap.items()}

    def state_key(self):
        return tuple((sid, tuple(v)) for sid, v in sorted(self.store.items()))

    # ------------------------------------------------------------- resolution
    def resolve(self, ref, tag_service=True):
        """-> (sid or None, found_object: bool)"""
        if ref[0] == 'name':
            t = self.tags.get(ref[1].lower())
            if t is None:
                return None, False
            return t.sid, True
        c, i, a = ref[1]
        if (c, i) not in self.objects:
            return None, False
        if a is None:
            a = 1 if tag_service else None
        sid = self.addr.get((c, i, a))
        return sid, True

    # ------------------------------------------------------------- operations
    def apply(self, op):
        k = op['kind']
        if k in ('read', 'readfrag'):
            return self._read(op)
        if k in ('write', 'writefrag'):
            return self._write(op)
        if k == 'gas':
            return self._gas(op)
        if k == 'sas':
            return self._sas(op)
        raise ValueError(k)

    def _read(self, op):
        sid, found = self.resolve(op['ref'])
        if not found:
            return Expected(unknown=True)
        if sid is None:
            return err(NOT_FOUND)
        tname = self.stype[sid]
        arr = self.store[sid]
        cnt = len(arr)
        s = elem_size(tname)
        idx = op.get('index') or 0
        n = op['elements']
        off = op.get('offset', 0) if op['kind'] == 'readfrag' else 0
        budget = self.budget
        if off % s != 0:
            return err(RANGE_ERR)
        beg = idx + off // s
        endactual = idx + n
        per = max((budget + s - 1) // s, 1)
        end = min(endactual, beg + per)
        if not (0 <= beg < cnt) or n > cnt or not (beg < end) or end > cnt:
            return err(RANGE_ERR)
        if self.strict_extent and endactual > cnt:
            return err(RANGE_ERR)
        done = end == endactual
        return Expected(status=0x00 if done else 0x06, tname=tname, values=list(arr[beg:end]))

    def _write(self, op):
        sid, found = self.resolve(op['ref'])
        if not found:
            return Expected(unknown=True)
        if sid is None:
            return err(NOT_FOUND)
        tname = self.stype[sid]
        arr = self.store[sid]
        cnt = len(arr)
        s = elem_size(tname)
        if op['tname'] not in ALLOWED[tname]:
            return err(TYPE_ERR)
        idx = op.get('index') or 0
        n = op['elements']
        vals = op['values']
        off = op.get('offset', 0) if op['kind'] == 'writefrag' else 0
        beg = idx + off // s            # a misaligned offset addresses the element containing it
        endactual = idx + n
        end = beg + len(vals)
        range_bad = (end > endactual or not (0 <= beg < cnt) or n > cnt or not (beg < end) or end > cnt
                     or (self.strict_extent and endactual > cnt))
        value_bad = not all(representable(tname, v) for v in vals)
        if value_bad:
            # C05: a write the tag's type cannot represent must not be acknowledged (0x2107, or
            # 0x2105 when the range is wrong as well: the statement does not rank the two)
            return Expected(status=0xFF, ext=(0x2107,), any_error=True)
        if range_bad:
            return err(RANGE_ERR)
        arr[beg:end] = [convert(tname, v) for v in vals]
        return Expected(status=0x00, wrote=(sid, beg, end))

    def _gas(self, op):
        sid, found = self.resolve(op['ref'], tag_service=False)
        if not found:
            return Expected(unknown=True)
        if sid is None:
            return Expected(any_error=True)
        return Expected(status=0x00, tname=self.stype[sid], values=list(self.store[sid]))

    def _sas(self, op):
        from .refcodec import dec_elems
        sid, found = self.resolve(op['ref'], tag_service=False)
        if not found:
            return Expected(unknown=True)
        if sid is None:
            return Expected(any_error=True)
        tname = self.stype[sid]
        if tname in STRINGS:
            return Expected(any_error=True)
        arr = self.store[sid]
        data = op['data']
        if len(data) != elem_size(tname) * len(arr):
            return Expected(any_error=True)
        vals = dec_elems(tname, data)
        arr[:] = [convert(tname, v) for v in vals]
        return Expected(status=0x00, wrote=(sid, 0, len(arr)))
