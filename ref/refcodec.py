"""Independent reference encoder / strict decoder for the EtherNet/IP CIP subset the worlds use.

Written with `struct` from the CIP layout tables (EtherNet/IP Adaptation of CIP vol.2 ch.2
encapsulation; vol.1 app.C EPATH; Logix5000 Data Access manual 1756-PM020 for the tag services).
Imports nothing from cpppo.
"""
import struct

# ---- encapsulation commands
NOP, LIST_SERVICES, LIST_IDENTITY, LIST_INTERFACES = 0x0000, 0x0004, 0x0063, 0x0064
REGISTER, UNREGISTER, SEND_RR, SEND_UNIT = 0x0065, 0x0066, 0x006F, 0x0070

# ---- services
GA_ALL, GA_LIST, GA_SINGLE, SA_SINGLE, MULTIPLE = 0x01, 0x03, 0x0E, 0x10, 0x0A
READ_TAG, WRITE_TAG, READ_FRAG, WRITE_FRAG = 0x4C, 0x4D, 0x52, 0x53
UNCONNECTED_SEND, FWD_OPEN, FWD_OPEN_LARGE, FWD_CLOSE = 0x52, 0x54, 0x5B, 0x4E

# ---- elementary types: code -> (name, struct format, size)
TYPES = {
    0xC1: ('BOOL', '<B', 1), 0xC2: ('SINT', '<b', 1), 0xC3: ('INT', '<h', 2), 0xC4: ('DINT', '<i', 4),
    0xC5: ('LINT', '<q', 8), 0xC6: ('USINT', '<B', 1), 0xC7: ('UINT', '<H', 2), 0xC8: ('UDINT', '<I', 4),
    0xC9: ('ULINT', '<Q', 8), 0xCA: ('REAL', '<f', 4), 0xCB: ('LREAL', '<d', 8),
    0xDA: ('SSTRING', None, None), 0xD0: ('STRING', None, None),
}
TYPE_CODE = {v[0]: k for k, v in TYPES.items()}
INT_RANGE = {
    'BOOL': (0, 1), 'SINT': (-128, 127), 'INT': (-32768, 32767), 'DINT': (-2**31, 2**31 - 1),
    'LINT': (-2**63, 2**63 - 1), 'USINT': (0, 255), 'UINT': (0, 65535), 'UDINT': (0, 2**32 - 1),
    'ULINT': (0, 2**64 - 1),
}


class DecodeError(Exception):
    pass


def need(cond, msg):
    if not cond:
        raise DecodeError(msg)


def tsize(tname):
    return TYPES[TYPE_CODE[tname]][2]


# ------------------------------------------------------------------ element values
def enc_elems(tname, values):
    code = TYPE_CODE[tname]
    fmt = TYPES[code][1]
    out = b''
    if tname == 'BOOL':
        return b''.join(b'\xff' if v else b'\x00' for v in values)
    if tname == 'SSTRING':
        for v in values:
            b = v.encode('iso-8859-1')
            out += struct.pack('<B', len(b)) + b
        return out
    if tname == 'STRING':
        for v in values:
            b = v.encode('iso-8859-1')
            out += struct.pack('<H', len(b)) + b + (b'\x00' if len(b) % 2 else b'')
        return out
    return b''.join(struct.pack(fmt, v) for v in values)


def dec_elems(tname, data, strict=True):
    """All elements in data; strict: data must be consumed exactly."""
    code = TYPE_CODE[tname]
    fmt, size = TYPES[code][1], TYPES[code][2]
    out = []
    if tname == 'SSTRING':
        i = 0
        while i < len(data):
            n = data[i]
            if strict:
                need(i + 1 + n <= len(data), 'SSTRING runs past data')
            out.append(bytes(data[i + 1:i + 1 + n]).decode('iso-8859-1'))
            i += 1 + n
        return out
    if tname == 'STRING':
        i = 0
        while i < len(data):
            need(i + 2 <= len(data), 'STRING length truncated')
            n = struct.unpack_from('<H', data, i)[0]
            end = i + 2 + n + (n % 2)
            if strict:
                need(end <= len(data), 'STRING runs past data')
            out.append(bytes(data[i + 2:i + 2 + n]).decode('iso-8859-1'))
            i = end
        return out
    if strict:
        need(len(data) % size == 0, 'data length %d not a multiple of %d' % (len(data), size))
    for i in range(0, len(data) - size + 1, size):
        v = struct.unpack_from(fmt, data, i)[0]
        if tname == 'BOOL':
            v = bool(v)
        out.append(v)
    return out


# ------------------------------------------------------------------ EPATH
def seg_logical(kind, value):
    """kind: 'class' 'instance' 'attribute' 'element' (member) 'connection'"""
    base = {'class': 0x20, 'instance': 0x24, 'element': 0x28, 'connection': 0x2C, 'attribute': 0x30}[kind]
    if value < 0x100:
        return struct.pack('<BB', base, value)
    if value < 0x10000:
        return struct.pack('<BBH', base | 1, 0, value)
    need(kind == 'element', '32-bit logical format is defined for member/element segments only')
    return struct.pack('<BBI', base | 2, 0, value)


def seg_symbolic(name):
    b = name.encode('iso-8859-1')
    out = struct.pack('<BB', 0x91, len(b)) + b
    if len(b) % 2:
        out += b'\x00'
    return out


def seg_port(port, link):
    """Port segment; link is an int (0..255) or an address string."""
    if isinstance(link, int):
        need(0 <= link < 256, 'link')
        if port < 15:
            return struct.pack('<BB', port, link)
        return struct.pack('<BHB', 0x0F, port, link)
    lb = link.encode('ascii')
    if port < 15:
        out = struct.pack('<BB', 0x10 | port, len(lb)) + lb
    else:
        out = struct.pack('<BBH', 0x1F, len(lb), port) + lb
    if len(out) % 2:
        out += b'\x00'
    return out


def epath(segs, padded_size=False):
    """segs: list of ('class',n) ('instance',n) ('attribute',n) ('element',n) ('symbolic',s) ('port',p,l).
    Returns size byte (in words) + segments  (padded_size adds the reserved byte after the size)."""
    body = b''
    for sg in segs:
        if sg[0] == 'symbolic':
            body += seg_symbolic(sg[1])
        elif sg[0] == 'port':
            body += seg_port(sg[1], sg[2])
        else:
            body += seg_logical(sg[0], sg[1])
    need(len(body) % 2 == 0, 'odd epath')
    hdr = struct.pack('<B', len(body) // 2)
    if padded_size:
        hdr += b'\x00'
    return hdr + body


def tag_path(name=None, addr=None, element=None):
    """EPATH segments for a tag by symbolic name ('a.b' -> two symbolic segments) or by
    (class, instance[, attribute]) address, optionally with an element index."""
    segs = []
    if name is not None:
        for part in name.split('.'):
            segs.append(('symbolic', part))
    else:
        segs.append(('class', addr[0]))
        segs.append(('instance', addr[1]))
        if len(addr) > 2 and addr[2] is not None:
            segs.append(('attribute', addr[2]))
    if element is not None:
        segs.append(('element', element))
    return segs


# ------------------------------------------------------------------ service requests
def req_read_tag(path, elements):
    return struct.pack('<B', READ_TAG) + epath(path) + struct.pack('<H', elements)


def req_read_frag(path, elements, offset):
    return struct.pack('<B', READ_FRAG) + epath(path) + struct.pack('<HI', elements, offset)


def req_write_tag(path, tname, values, elements=None):
    n = len(values) if elements is None else elements
    return (struct.pack('<B', WRITE_TAG) + epath(path) + struct.pack('<HH', TYPE_CODE[tname], n)
            + enc_elems(tname, values))


def req_write_frag(path, tname, values, elements, offset):
    return (struct.pack('<B', WRITE_FRAG) + epath(path)
            + struct.pack('<HHI', TYPE_CODE[tname], elements, offset) + enc_elems(tname, values))


def req_get_attr_single(path):
    return struct.pack('<B', GA_SINGLE) + epath(path)


def req_set_attr_single(path, data):
    return struct.pack('<B', SA_SINGLE) + epath(path) + bytes(data)


def req_get_attrs_all(path):
    return struct.pack('<B', GA_ALL) + epath(path)


def req_multiple(members, path=(('class', 2), ('instance', 1))):
    n = len(members)
    offs = []
    o = 2 + 2 * n
    for m in members:
        offs.append(o)
        o += len(m)
    return (struct.pack('<B', MULTIPLE) + epath(list(path)) + struct.pack('<H', n)
            + b''.join(struct.pack('<H', x) for x in offs) + b''.join(members))


def unconnected_send(msg, route=None, priority=5, ticks=157):
    """Wrap a request in the Connection Manager's Unconnected Send (service 0x52 to @6/1).
    route: list of ('port', p, l) segments, or [] for an empty route path."""
    out = struct.pack('<B', UNCONNECTED_SEND) + epath([('class', 6), ('instance', 1)])
    out += struct.pack('<BBH', priority, ticks, len(msg)) + msg
    if len(msg) % 2:
        out += b'\x00'
    out += epath(route or [], padded_size=True)
    return out


def req_forward_open(conn_serial, vendor=0x1234, serial=0x5678, o_t_id=0x20000002, t_o_id=0x20000001,
                     size=500, large=False, path=(('port', 1, 0), ('class', 2), ('instance', 1)),
                     rpi=0x00201234, trigger=0xA3, tick=0x0A, ticks=0x0E):
    svc = FWD_OPEN_LARGE if large else FWD_OPEN
    out = struct.pack('<B', svc) + epath([('class', 6), ('instance', 1)])
    out += struct.pack('<BBIIHHIB3s', tick, ticks, o_t_id, t_o_id, conn_serial, vendor, serial, 1, b'\0\0\0')
    if large:
        ncp = 0x42000000 | size
        out += struct.pack('<IIII', rpi, ncp, rpi, ncp)
    else:
        ncp = 0x4200 | (size & 0x1FF)
        out += struct.pack('<IHIH', rpi, ncp, rpi, ncp)
    out += struct.pack('<B', trigger) + epath(list(path))
    return out


def req_forward_close(conn_serial, vendor=0x1234, serial=0x5678,
                      path=(('port', 1, 0), ('class', 2), ('instance', 1)), tick=0x0A, ticks=0x0E):
    out = struct.pack('<B', FWD_CLOSE) + epath([('class', 6), ('instance', 1)])
    out += struct.pack('<BBHHI', tick, ticks, conn_serial, vendor, serial)
    out += epath(list(path), padded_size=True)
    return out


# ------------------------------------------------------------------ encapsulation
def encap(command, session=0, data=b'', context=b'\0' * 8, status=0, options=0):
    need(len(context) == 8, 'context')
    return struct.pack('<HHII8sI', command, len(data), session, status, context, options) + data


def register(context=b'\0' * 8, version=1, options=0):
    return encap(REGISTER, 0, struct.pack('<HH', version, options), context)


def unregister(session, context=b'\0' * 8):
    return encap(UNREGISTER, session, b'', context)


def cpf(items):
    out = struct.pack('<H', len(items))
    for tid, d in items:
        out += struct.pack('<HH', tid, len(d)) + d
    return out


def send_rr(session, cip, context=b'\0' * 8, timeout=5):
    body = struct.pack('<IH', 0, timeout) + cpf([(0x0000, b''), (0x00B2, cip)])
    return encap(SEND_RR, session, body, context)


def send_unit(session, conn_id, seq, cip, context=b'\0' * 8):
    body = struct.pack('<IH', 0, 0) + cpf([(0x00A1, struct.pack('<I', conn_id)),
                                          (0x00B1, struct.pack('<H', seq) + cip)])
    return encap(SEND_UNIT, session, body, context)


def list_cmd(command, context=b'\0' * 8):
    return encap(command, 0, b'', context)


# ------------------------------------------------------------------ decoding
class Frame(object):
    __slots__ = ('command', 'length', 'session', 'status', 'context', 'options', 'data', 'raw')

    def __repr__(self):
        return 'Frame(cmd=0x%04x len=%d sess=0x%x st=0x%x ctx=%s)' % (
            self.command, self.length, self.session, self.status, self.context.hex())


def split_frames(buf):
    """(list of complete Frames, remaining bytes)"""
    out = []
    i = 0
    while len(buf) - i >= 24:
        cmd, ln, sess, st, ctx, opt = struct.unpack_from('<HHII8sI', buf, i)
        if len(buf) - i < 24 + ln:
            break
        f = Frame()
        f.command, f.length, f.session, f.status, f.context, f.options = cmd, ln, sess, st, ctx, opt
        f.data = bytes(buf[i + 24:i + 24 + ln])
        f.raw = bytes(buf[i:i + 24 + ln])
        out.append(f)
        i += 24 + ln
    return out, bytes(buf[i:])


def dec_cpf(data, off=0):
    need(len(data) >= off + 2, 'CPF count truncated')
    n = struct.unpack_from('<H', data, off)[0]
    off += 2
    items = []
    for _ in range(n):
        need(len(data) >= off + 4, 'CPF item header truncated')
        tid, ln = struct.unpack_from('<HH', data, off)
        off += 4
        need(len(data) >= off + ln, 'CPF item data truncated')
        items.append((tid, bytes(data[off:off + ln])))
        off += ln
    return items, off


def dec_send_data(frame, strict=True):
    """-> (items) for SendRRData / SendUnitData frames."""
    d = frame.data
    need(len(d) >= 6, 'send data header truncated')
    items, off = dec_cpf(d, 6)
    if strict:
        need(off == len(d), 'trailing bytes after CPF (%d)' % (len(d) - off))
    return items


class Reply(object):
    __slots__ = ('service', 'status', 'ext', 'payload')

    def __repr__(self):
        return 'Reply(svc=0x%02x st=0x%02x ext=%r payload=%s)' % (
            self.service, self.status, self.ext, self.payload.hex())

    def key(self):
        return (self.service, self.status, tuple(self.ext), self.payload)


def dec_reply(data, strict=True):
    """CIP message router reply: service|0x80, reserved, status, ext size (words), ext words, payload."""
    need(len(data) >= 4, 'reply shorter than 4 bytes')
    r = Reply()
    r.service, rsv, r.status, n = struct.unpack_from('<BBBB', data, 0)
    if strict:
        need(rsv == 0, 'reserved byte non-zero')
    need(len(data) >= 4 + 2 * n, 'extended status truncated')
    r.ext = list(struct.unpack_from('<%dH' % n, data, 4)) if n else []
    r.payload = bytes(data[4 + 2 * n:])
    return r


def dec_multiple_reply(payload, strict=True):
    """payload of a Multiple Service Packet reply -> list of member reply byte strings."""
    need(len(payload) >= 2, 'multiple reply count truncated')
    n = struct.unpack_from('<H', payload, 0)[0]
    need(len(payload) >= 2 + 2 * n, 'multiple reply offsets truncated')
    offs = list(struct.unpack_from('<%dH' % n, payload, 2)) if n else []
    if strict and n:
        need(offs[0] == 2 + 2 * n, 'first offset %d != %d' % (offs[0], 2 + 2 * n))
    out = []
    for i, o in enumerate(offs):
        e = offs[i + 1] if i + 1 < n else len(payload)
        need(o <= e <= len(payload), 'offsets not increasing / beyond payload')
        out.append(bytes(payload[o:e]))
    return out, offs


def dec_typed(payload, strict=True):
    """Read Tag [Fragmented] reply payload: type(2) + elements -> (tname, values, raw bytes)."""
    need(len(payload) >= 2, 'typed data: type truncated')
    code = struct.unpack_from('<H', payload, 0)[0]
    need(code in TYPES, 'unknown type code 0x%x' % code)
    tname = TYPES[code][0]
    raw = payload[2:]
    return tname, dec_elems(tname, raw, strict=strict), raw


def dec_forward_open_reply(payload, large=False):
    need(len(payload) >= 26, 'forward open reply truncated')
    o_t, t_o, cserial, vendor, serial, o_api, t_api, n, rsv = struct.unpack_from('<IIHHIIIBB', payload, 0)
    need(len(payload) == 26 + 2 * n, 'forward open reply application data length')
    return dict(o_t=o_t, t_o=t_o, conn_serial=cserial, vendor=vendor, serial=serial,
                o_api=o_api, t_api=t_api)


def dec_forward_close_reply(payload):
    need(len(payload) >= 10, 'forward close reply truncated')
    cserial, vendor, serial, n, rsv = struct.unpack_from('<HHIBB', payload, 0)
    need(len(payload) == 10 + 2 * n, 'forward close reply application data length')
    return dict(conn_serial=cserial, vendor=vendor, serial=serial)


# ------------------------------------------------------------------ lenient request decoder (C08)
def dec_epath(data, off, padded=False, lenient=False):
    need(len(data) > off, 'epath size missing')
    words = data[off]
    off += 1
    if padded:
        off += 1
    end = off + 2 * words
    if lenient:
        end = min(end, len(data))
    need(end <= len(data), 'epath truncated')
    segs = []
    i = off
    while i < end:
        b = data[i]
        if lenient and not (b == 0x91 or b & 0xE0 == 0x20 or (b & 0xE0 == 0x00 and b & 0x0F)):
            return segs, i          # the path ends where no segment can start
        if b == 0x91:
            n = data[i + 1]
            segs.append(('symbolic', bytes(data[i + 2:i + 2 + n]).decode('iso-8859-1')))
            i += 2 + n + (n % 2)
        elif b & 0xE0 == 0x20:
            kind = {0x20: 'class', 0x24: 'instance', 0x28: 'element', 0x2C: 'connection', 0x30: 'attribute'}.get(b & 0xFC)
            need(kind is not None, 'unknown logical segment 0x%02x' % b)
            fmt = b & 3
            if fmt == 0:
                segs.append((kind, data[i + 1]))
                i += 2
            elif fmt == 1:
                segs.append((kind, struct.unpack_from('<H', data, i + 2)[0]))
                i += 4
            elif fmt == 2:
                segs.append((kind, struct.unpack_from('<I', data, i + 2)[0]))
                i += 6
            else:
                raise DecodeError('bad logical format')
        elif b & 0xE0 == 0x00:
            port = b & 0x0F
            ext = b & 0x10
            j = i + 1
            if ext:
                ln = data[j]
                j += 1
            if port == 0x0F:
                port = struct.unpack_from('<H', data, j)[0]
                j += 2
            if ext:
                link = bytes(data[j:j + ln]).decode('ascii', 'replace')
                j += ln
            else:
                link = data[j]
                j += 1
            if (j - i) % 2:
                j += 1
            segs.append(('port', port, link))
            i = j
        else:
            raise DecodeError('unknown segment 0x%02x' % b)
    if lenient:
        return segs, i
    need(i == end, 'epath segments overrun')
    return segs, end


def dec_request(msg, lenient=True):
    """Decode of one CIP request -> dict(service, path, ...) or raises DecodeError.  lenient: tolerate
    inconsistent size/length/pad fields as long as service, path, type and values can be read off in
    order; strict (lenient=False): every length must be consistent and nothing may trail."""
    try:
        need(len(msg) >= 2, 'request too short')
        svc = msg[0]
        path, off = dec_epath(msg, 1, lenient=lenient)
        out = dict(service=svc, path=path)
        rest = msg[off:]
        if svc == READ_TAG:
            need(len(rest) == 2, 'read tag size')
            out['elements'] = struct.unpack('<H', rest)[0]
        elif svc == READ_FRAG and not (path[:2] == [('class', 6), ('instance', 1)]):
            need(len(rest) == 6, 'read frag size')
            out['elements'], out['offset'] = struct.unpack('<HI', rest)
        elif svc == WRITE_TAG:
            need(len(rest) >= 4, 'write tag header')
            code, n = struct.unpack_from('<HH', rest, 0)
            need(code in TYPES, 'type')
            out['type'] = TYPES[code][0]
            out['elements'] = n
            out['values'] = dec_elems(out['type'], rest[4:], strict=not lenient)
            if not lenient:
                need(len(out['values']) == n, 'write tag element count')
        elif svc == WRITE_FRAG:
            need(len(rest) >= 8, 'write frag header')
            code, n, o = struct.unpack_from('<HHI', rest, 0)
            need(code in TYPES, 'type')
            out['type'] = TYPES[code][0]
            out['elements'] = n
            out['offset'] = o
            out['values'] = dec_elems(out['type'], rest[8:], strict=not lenient)
        elif svc == SA_SINGLE:
            out['data'] = bytes(rest)
        elif svc == MULTIPLE:
            need(len(rest) >= 2, 'multiple count')
            n = struct.unpack_from('<H', rest, 0)[0]
            need(len(rest) >= 2 + 2 * n, 'multiple offsets')
            offs = struct.unpack_from('<%dH' % n, rest, 2)
            members = []
            for i, o in enumerate(offs):
                e = offs[i + 1] if i + 1 < n else len(rest)
                try:
                    need(2 + 2 * n <= o <= e <= len(rest), 'multiple offsets inconsistent')
                    members.append(dec_request(rest[o:e], lenient))
                except DecodeError:
                    if not lenient:
                        raise
                    members.append(None)        # this member cannot be read; the others still can
            out['members'] = members
        elif svc == UNCONNECTED_SEND:
            need(len(rest) >= 4, 'unconnected send header')
            prio, ticks, ln = struct.unpack_from('<BBH', rest, 0)
            need(len(rest) >= 4 + ln, 'unconnected send message truncated')
            out['request'] = dec_request(rest[4:4 + ln], lenient)
            if lenient:
                try:
                    out['route'], _ = dec_epath(rest, 4 + ln + (ln % 2), padded=True, lenient=True)
                except (DecodeError, IndexError, struct.error):
                    out['route'] = None
            else:
                out['route'], end = dec_epath(rest, 4 + ln + (ln % 2), padded=True)
                need(end == len(rest), 'trailing bytes after the route path')
        else:
            out['rest'] = bytes(rest)
        return out
    except (struct.error, IndexError, UnicodeError) as exc:
        raise DecodeError(str(exc))
