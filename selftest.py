"""Self-tests of the machinery (not of cpppo):

 determinism  every world, N seeds: same seed twice in different worker processes, at 1 and 16
              workers, and once more in a fresh interpreter under another PYTHONHASHSEED; all
              event-log digests must agree.
 replay       a recorded tape replays to the identical digest.
"""
import json
import os
import subprocess
import sys
import time

HERE = os.path.dirname(os.path.abspath(__file__))


def digests(world_names, n, seed, workers):
    from sim import runner
    out = {}
    for wn in world_names:
        res = runner.run_batch('selftest', wn, n, {'tier': 'quick'}, seed=seed, workers=workers)
        for r in res:
            out['%s/%d' % (wn, r['index'])] = (r.get('digest'), r.get('error'))
    return out


def child(world_names, n, seed):
    from sim import install
    import props
    install.install()
    props.load_worlds()
    # a different collector state than the first interpreter had: other thresholds, and a heap of
    # uncollected cyclic garbage (a run must not depend on when the forking parent would collect)
    import gc
    gc.set_threshold(97, 3, 3)
    junk = [[] for _ in range(23456)]
    for j in junk:
        j.append(j)
    del junk
    d = digests(world_names, n, seed, 8)
    print('DIGESTS ' + json.dumps(d))


def main(long=False):
    from sim import install, runner
    import props
    t0 = time.time()
    install.install()
    props.load_worlds()
    worlds = sorted(runner.REGISTRY)
    if os.environ.get('VERIF_SELFTEST_WORLDS'):
        worlds = os.environ['VERIF_SELFTEST_WORLDS'].split(',')
    n = 200 if long else 12
    seed = 424242
    bad = 0
    a = digests(worlds, n, seed, 16)
    b = digests(worlds, n, seed, 3)
    errs = [k for k, v in a.items() if v[1]]
    for k in errs[:5]:
        print('HARNESS-ERROR in %s: %s' % (k, a[k][1][-400:]))
    for k in a:
        if a[k][0] != b.get(k, (None,))[0]:
            bad += 1
            print('NONDETERMINISM %s: %s vs %s (16 vs 3 workers)' % (k, a[k][0], b.get(k)))
    env = dict(os.environ)
    env['PYTHONHASHSEED'] = '1'
    env['VERIF_NO_REEXEC'] = '1'
    p = subprocess.run([sys.executable, os.path.join(HERE, 'selftest.py'), '--child', ','.join(worlds), str(n), str(seed)],
                       env=env, capture_output=True, text=True, timeout=3600)
    c = None
    for line in p.stdout.splitlines():
        if line.startswith('DIGESTS '):
            c = json.loads(line[8:])
    if c is None:
        print('HARNESS-ERROR: fresh-interpreter child produced no digests\n' + p.stdout[-800:] + p.stderr[-800:])
        return 2
    for k in a:
        if a[k][0] != (c.get(k) or [None])[0]:
            bad += 1
            print('NONDETERMINISM %s: differs under PYTHONHASHSEED=1 in a fresh interpreter' % k)
    # replay: recorded tapes reproduce the digest
    rep_bad = 0
    for wn in worlds:
        s = runner.mix(seed, 'replay', wn)
        r1 = runner.fork_run(wn, s, {'tier': 'quick'}, want_tapes=True)
        if r1.get('error'):
            print('HARNESS-ERROR %s: %s' % (wn, r1['error'][-400:]))
            rep_bad += 1
            continue
        r2 = runner.fork_run(wn, s, {'tier': 'quick'}, replay=r1['tapes'], want_tapes=True)
        if r1.get('digest') != r2.get('digest'):
            rep_bad += 1
            print('REPLAY-MISMATCH %s: %s vs %s' % (wn, r1.get('digest'), r2.get('digest')))
    total = len(a)
    doc = dict(worlds=worlds, seeds_per_world=n, runs_compared=total, nondeterministic=bad, replay_mismatch=rep_bad,
               harness_errors=len(errs), wall_s=round(time.time() - t0, 1),
               comparisons=['16 workers vs 3 workers', 'PYTHONHASHSEED=0 vs 1 in a fresh interpreter with another garbage-collector state',
                            'generated run vs replay of its recorded tapes'])
    os.makedirs(os.path.join(HERE, 'evidence'), exist_ok=True)
    with open(os.path.join(HERE, 'evidence', 'selftest.json'), 'w') as f:
        json.dump(doc, f, indent=1)
    print('selftest: %d runs over %d worlds compared 3 ways, %d nondeterministic, %d replay mismatches, %d harness errors, %.1fs' % (
        total, len(worlds), bad, rep_bad, len(errs), time.time() - t0))
    return 0 if not (bad or rep_bad or errs) else 2


if __name__ == '__main__':
    sys.path.insert(0, HERE)
    if len(sys.argv) > 1 and sys.argv[1] == '--child':
        child(sys.argv[2].split(','), int(sys.argv[3]), int(sys.argv[4]))
    else:
        sys.exit(main('--long' in sys.argv))
