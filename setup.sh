#!/bin/sh
# Offline setup: nothing is installed; verify the interpreter and the imports the checks need.
cd "$(dirname "$0")" || exit 2
/venv/bin/python - <<'PY' || exit 2
import sys
sys.path.insert(0, '/verif')
import greenery, pylogix
from sim import install
m = install.install()
print('setup ok: cpppo from', m['cpppo'].__file__, '; dfa locks replaced:', install._state['dfa_locks'])
PY
