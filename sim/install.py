"""Import cpppo from the tree under test and rebind its nondeterminism seams to the simulator.

No change to /repo is needed: cpppo reaches sockets, select, the clock, sleeping, threads and locks
through module-level names, which are rebound here after import.
"""
import atexit
import gc
import logging
import os
import shutil
import sys
import tempfile
import threading as _threading

from . import sched as _sched
from . import simnet as _simnet

REPO = os.environ.get('VERIF_REPO', '/repo')

SOCK = _simnet.SocketModule()
SEL = _simnet.SelectModule()
TIME = _simnet.TimeModule()

_state = {'loaded': False, 'installed': False, 'pkgdir': None}
M = {}          # name -> cpppo module, filled by load()


def _cleanup():
    d = _state.get('pkgdir')
    if d and _state.get('pid') == os.getpid():
        shutil.rmtree(d, ignore_errors=True)


def load():
    """Import cpppo from REPO (a package directory that is itself the `cpppo` package)."""
    if _state['loaded']:
        return M
    sys.dont_write_bytecode = True
    import warnings
    warnings.filterwarnings('ignore')
    base = '/dev/shm' if os.path.isdir('/dev/shm') and os.access('/dev/shm', os.W_OK) else None
    d = tempfile.mkdtemp(prefix='verif-pkg-', dir=base)
    _state['pkgdir'] = d
    _state['pid'] = os.getpid()
    atexit.register(_cleanup)
    os.symlink(os.path.realpath(REPO), os.path.join(d, 'cpppo'))
    sys.path.insert(0, d)
    for k in [k for k in sys.modules if k == 'cpppo' or k.startswith('cpppo.')]:
        del sys.modules[k]
    if not os.environ.get('VERIF_LOG'):
        logging.disable(logging.CRITICAL)
    import cpppo
    got = os.path.realpath(os.path.dirname(cpppo.__file__))
    assert got == os.path.realpath(REPO), 'cpppo imported from %s, wanted %s' % (got, REPO)
    from cpppo import misc, automata
    import cpppo.dotdict
    import cpppo.misc
    import cpppo.automata
    dotdict = sys.modules['cpppo.dotdict']
    misc = sys.modules['cpppo.misc']
    automata = sys.modules['cpppo.automata']
    from cpppo.server import network
    from cpppo.server.enip import main as enip_main, client, logix, device, ucmm, parser, defaults
    from cpppo.server.enip import get_attribute, poll
    M.update(cpppo=cpppo, misc=misc, automata=automata, dotdict=dotdict, network=network,
             enip_main=enip_main, client=client, logix=logix, device=device, ucmm=ucmm,
             parser=parser, defaults=defaults, get_attribute=get_attribute, poll=poll)
    if not os.environ.get('VERIF_LOG'):
        logging.disable(logging.CRITICAL)
    _state['loaded'] = True
    return M


class _ThreadingShim(object):
    """`threading` as seen by automata / get_attribute: locks are SimLocks."""

    def __getattr__(self, name):
        return getattr(_threading, name)

    @staticmethod
    def Lock():
        return _sched.SimLock()

    Thread = _sched.SimThread


def install():
    """Rebind the seams.  Idempotent; done once in the (single-threaded) parent before forking."""
    if _state['installed']:
        return M
    m = load()
    misc, automata, network = m['misc'], m['automata'], m['network']
    enip_main, client, logix, device, ucmm = m['enip_main'], m['client'], m['logix'], m['device'], m['ucmm']
    get_attribute, poll, cpppo = m['get_attribute'], m['poll'], m['cpppo']

    # sockets / readiness / sleeping
    network.socket = SOCK
    network.select = SEL
    network.time = TIME
    enip_main.socket = SOCK
    enip_main.time = TIME
    client.socket = SOCK
    client.select = SEL
    poll.time = TIME
    if hasattr(get_attribute, 'time'):
        get_attribute.time = TIME

    # clock
    misc.timer = _simnet.timer
    cpppo.timer = _simnet.timer
    get_attribute.timer = _simnet.timer
    poll.timer = _simnet.timer

    # threads: network.server_thread is looked up by main() at call time
    orig_join = network.server_thread.__dict__['join']

    class server_thread(network.server_runner, _sched.SimThread):
        SIM_TRACE = True
        join = orig_join
    network.server_thread = server_thread

    # locks
    shim = _ThreadingShim()
    automata.threading = shim
    get_attribute.threading = shim
    n = 0
    for o in gc.get_objects():
        if isinstance(o, automata.dfa_base):
            o.lock = _sched.SimLock(name=type(o).__name__)
            n += 1
    _state['dfa_locks'] = n

    def mark(cls, seen):
        for name in ('parser', 'parser_service_path'):
            p = cls.__dict__.get(name)
            if isinstance(p, automata.dfa_base):
                p.lock.shared = True
                p.lock.name = '%s.%s' % (cls.__name__, name)
        for sub in cls.__subclasses__():
            if sub not in seen:
                seen.add(sub)
                mark(sub, seen)
    mark(device.Object, set())
    logix.setup.lock = _sched.SimLock(shared=True, name='setup')
    ucmm.UCMM.lock = _sched.SimLock(shared=True, name='UCMM.lock')
    device.Connection_Manager.lock = _sched.SimLock(shared=True, name='CM.lock')
    _state['installed'] = True
    return m


def install_history():
    m = load()
    from cpppo.history import files as hfiles, times as htimes
    hfiles.timer = _simnet.timer
    if hasattr(htimes, 'timer'):
        htimes.timer = _simnet.timer
    m['hfiles'] = hfiles
    m['htimes'] = htimes
    return hfiles, htimes


def install_tnet():
    m = load()
    from cpppo.server import tnet, tnetstrings
    # tnet reads cpppo.timer() and network.recv (already on simulated select/socket)
    m['tnet'] = tnet
    m['tnetstrings'] = tnetstrings
    return tnet, tnetstrings


def new_world(tape, **sched_kw):
    """A fresh scheduler + network bound to the seams (call inside the forked child)."""
    s = _sched.Sched(tape, **sched_kw)
    _sched.activate(s)
    net = _simnet.Net(s)
    SOCK.net = net
    SEL.net = net
    return s, net
