"""Fork-per-run execution, batches over 16 workers, minimisation, replay files, evidence.

Every simulated run executes in a fresh forked child of a process that has imported cpppo from the
tree under test and installed the seams but created no CIP object; the child runs one simulation,
writes one JSON result to a pipe and _exit()s.  A wall-clock kill is a *harness error* (exit 2),
never a pass and never a VIOLATION.
"""
import faulthandler
import json
import os
import random
import select
import signal
import subprocess
import sys
import tempfile
import time
import traceback

from .tape import Tapes, mix

VERIF = os.path.dirname(os.path.dirname(os.path.abspath(__file__)))
WORKERS = int(os.environ.get('VERIF_WORKERS', '16'))
RUN_WALL_CAP = float(os.environ.get('VERIF_RUN_WALL_CAP', '120'))

REGISTRY = {}           # world name -> function(tapes, params) -> result dict


def world(name):
    def deco(fn):
        REGISTRY[name] = fn
        return fn
    return deco


# ---------------------------------------------------------------------------- one run
def _child(world_name, seed, params, replay, wfd, want_tapes):
    try:
        faulthandler.enable()
        faulthandler.dump_traceback_later(RUN_WALL_CAP - 5, exit=False)
        # cpppo's half-parsed generators complain when they are garbage collected after a fault
        # ("Exception ignored in: <generator ...>"); that is stderr noise, not an outcome
        sys.unraisablehook = lambda *a: None
        # The cyclic collector runs finalizers (a discarded client's socket close, a half-run
        # generator's `finally`) whenever allocation counters say so -- and those counters are
        # inherited from the forking parent.  In a run the collector is therefore off; the scheduler
        # collects at points it chooses (Sched._gc), and everything inherited is frozen.
        import gc
        if not os.environ.get('VERIF_GC_LEGACY'):       # (legacy: only to show that selftest notices)
            gc.disable()
            gc.freeze()
        tapes = Tapes(seed, replay)
        random.seed(mix(seed, 'sut'))
        fn = REGISTRY[world_name]
        try:
            res = fn(tapes, dict(params))
        except BaseException:
            res = {'error': 'HARNESS: ' + traceback.format_exc()[-3000:]}
        res['seed'] = seed
        if want_tapes or res.get('violations') or res.get('error'):
            res['tapes'] = tapes.records()
        data = json.dumps(res, default=repr).encode()
    except BaseException:
        data = json.dumps({'seed': seed, 'error': 'HARNESS: ' + traceback.format_exc()[-3000:]}).encode()
    try:
        off = 0
        while off < len(data):
            off += os.write(wfd, data[off:off + 65536])
    finally:
        os._exit(0)


def fork_run(world_name, seed, params=None, replay=None, want_tapes=False, wall_cap=None):
    """Run one simulation in a forked child; returns its result dict."""
    wall_cap = wall_cap or RUN_WALL_CAP
    rfd, wfd = os.pipe()
    sys.stdout.flush()
    sys.stderr.flush()
    pid = os.fork()
    if pid == 0:
        os.close(rfd)
        _child(world_name, seed, params or {}, replay, wfd, want_tapes)
        os._exit(0)
    os.close(wfd)
    chunks = []
    deadline = time.time() + wall_cap
    timed_out = False
    while True:
        left = deadline - time.time()
        if left <= 0:
            timed_out = True
            break
        r, _, _ = select.select([rfd], [], [], min(left, 5.0))
        if r:
            b = os.read(rfd, 1 << 20)
            if not b:
                break
            chunks.append(b)
    os.close(rfd)
    if timed_out:
        try:
            os.kill(pid, signal.SIGKILL)
        except OSError:
            pass
    try:
        os.waitpid(pid, 0)
    except OSError:
        pass
    if timed_out:
        return {'seed': seed, 'error': 'HARNESS: WALL_TIMEOUT after %.0fs' % wall_cap}
    try:
        return json.loads(b''.join(chunks).decode())
    except Exception as exc:
        return {'seed': seed, 'error': 'HARNESS: child died without result (%s)' % exc}


# ---------------------------------------------------------------------------- batches
def _worker(k, nworkers, spec, out_path):
    out = []
    t0 = time.time()
    jobs = spec.get('jobs')
    count = len(jobs) if jobs is not None else spec['count']
    budget = spec.get('wall_budget')
    i = k
    while i < count:
        if budget and time.time() - t0 > budget:
            break
        if jobs is not None:
            seed, jp = jobs[i]
            params = dict(spec['params'])
            params.update(jp)
        else:
            seed = mix(spec['seed'], spec['prop'], spec['world'], i)
            params = dict(spec['params'])
        params['_index'] = i
        res = fork_run(spec['world'], seed, params)
        res['index'] = i
        res['_jobparams'] = params if jobs is not None else None
        out.append(res)
        i += nworkers
    with open(out_path, 'w') as f:
        json.dump(out, f)
    os._exit(0)


def run_batch(prop, world_name, count, params=None, seed=0, workers=None, wall_budget=None, jobs=None):
    """Run `count` seeds of a world (or the explicit (seed, params) `jobs`) across worker
    processes.  Returns list of result dicts."""
    if jobs is not None:
        count = len(jobs)
    workers = min(workers or WORKERS, max(1, count))
    spec = dict(prop=prop, world=world_name, count=count, params=params or {}, seed=seed,
                wall_budget=wall_budget, jobs=jobs)
    tmpd = tempfile.mkdtemp(prefix='verif-batch-', dir='/dev/shm' if os.path.isdir('/dev/shm') else None)
    pids = []
    try:
        for k in range(workers):
            sys.stdout.flush()
            sys.stderr.flush()
            pid = os.fork()
            if pid == 0:
                try:
                    _worker(k, workers, spec, os.path.join(tmpd, 'w%d.json' % k))
                finally:
                    os._exit(1)
            pids.append(pid)
        for pid in pids:
            os.waitpid(pid, 0)
        results = []
        for k in range(workers):
            p = os.path.join(tmpd, 'w%d.json' % k)
            if os.path.exists(p):
                with open(p) as f:
                    results.extend(json.load(f))
            else:
                results.append({'seed': -1, 'index': -1, 'error': 'HARNESS: worker %d died' % k})
        results.sort(key=lambda r: r.get('index', -1))
        return results
    finally:
        for n in os.listdir(tmpd):
            try:
                os.unlink(os.path.join(tmpd, n))
            except OSError:
                pass
        try:
            os.rmdir(tmpd)
        except OSError:
            pass


# ---------------------------------------------------------------------------- minimisation
def _fails_same(res, cls, key=None):
    """The run shows a violation of the same class (and, when given, the same key: the shrinker
    must not drift from an unlisted violation into the shape of a known finding)."""
    if res.get('error'):
        return False
    for v in res.get('violations', []):
        if v.get('cls') == cls and (key is None or (v.get('key') or {}) == key):
            return True
    return False


def shrink(world_name, seed, params, records, cls, budget_s=60.0, log=None, key=None):
    """Shrink recorded tapes while a violation of class `cls` persists.  Returns (records, result)."""
    t_end = time.time() + budget_s
    best = {k: list(v) for k, v in records.items()}
    best_res = None
    tries = 0

    def attempt(cand):
        nonlocal best, best_res, tries
        if time.time() > t_end:
            return False
        tries += 1
        res = fork_run(world_name, seed, params, replay=cand, want_tapes=True, wall_cap=60)
        if _fails_same(res, cls, key):
            # keep what the run actually consumed (never longer than the candidate)
            used = res.get('tapes') or cand
            best = {k: list(used.get(k, []))[:len(cand.get(k, []))] if k in cand else [] for k in cand}
            for k in best:
                while best[k] and best[k][-1] == 0:
                    best[k].pop()
            best_res = res
            return True
        return False

    # make sure the replay reproduces at all
    if not attempt(best):
        return records, None
    order = sorted(best.keys(), key=lambda k: (k != 'sch', k))
    improved = True
    while improved and time.time() < t_end:
        improved = False
        for name in order:
            # 1. truncate (binary search on prefix length)
            lo, hi = 0, len(best[name])
            while lo < hi and time.time() < t_end:
                mid = (lo + hi) // 2
                cand = dict(best)
                cand[name] = best[name][:mid]
                if attempt(cand):
                    hi = len(best[name])
                    if hi > mid:
                        hi = mid
                    improved = True
                else:
                    lo = mid + 1
            # 2. zero / delete blocks
            size = max(1, len(best[name]) // 2)
            while size >= 1 and time.time() < t_end:
                i = 0
                while i < len(best[name]) and time.time() < t_end:
                    blk = best[name][i:i + size]
                    if any(blk):
                        cand = dict(best)
                        cand[name] = best[name][:i] + [0] * len(blk) + best[name][i + size:]
                        if attempt(cand):
                            improved = True
                            continue
                    cand = dict(best)
                    cand[name] = best[name][:i] + best[name][i + size:]
                    if len(cand[name]) < len(best[name]) and attempt(cand):
                        improved = True
                        continue
                    i += size
                size //= 2
            # 3. lower individual values
            i = 0
            while i < len(best[name]) and time.time() < t_end:
                v = best[name][i]
                if v > 0:
                    for nv in (0, v // 2, v - 1):
                        if nv < v:
                            cand = dict(best)
                            cand[name] = best[name][:i] + [nv] + best[name][i + 1:]
                            if attempt(cand):
                                improved = True
                                break
                i += 1
    if log:
        log('shrink: %d attempts, tape lengths %s' % (tries, {k: len(v) for k, v in best.items()}))
    return best, best_res


# ---------------------------------------------------------------------------- replay files
def repo_rev():
    repo = os.environ.get('VERIF_REPO', '/repo')
    try:
        rev = subprocess.run(['git', '-C', repo, 'rev-parse', '--short', 'HEAD'], capture_output=True,
                             text=True, timeout=10).stdout.strip()
        dirty = subprocess.run(['git', '-C', repo, 'status', '--porcelain', '-uno'], capture_output=True,
                               text=True, timeout=10).stdout.strip()
        return rev + ('+dirty' if dirty else '')
    except Exception:
        return 'unknown'


def write_replay(prop, world_name, seed, params, records, res, violation):
    d = os.path.join(VERIF, 'replays')
    os.makedirs(d, exist_ok=True)
    n = 0
    while True:
        path = os.path.join(d, '%s-%d-%d.json' % (prop, seed % 10**9, n))
        if not os.path.exists(path):
            break
        n += 1
    doc = dict(property=prop, world=world_name, seed=seed, params=params, tapes=records,
               violation=violation, digest=res.get('digest'), sample=res.get('sample'),
               events=res.get('events'), repo=repo_rev())
    with open(path, 'w') as f:
        json.dump(doc, f, indent=1, default=repr)
    return path


def replay_file(path):
    """Re-run a replay file in a fresh child.  Returns (reproduced: bool, result)."""
    with open(path) as f:
        doc = json.load(f)
    res = fork_run(doc['world'], doc['seed'], doc.get('params') or {}, replay=doc['tapes'], want_tapes=True)
    want = doc['violation'].get('cls')
    same_cls = _fails_same(res, want, doc['violation'].get('key'))
    same_digest = res.get('digest') == doc.get('digest')
    return same_cls and same_digest, res, doc, same_cls, same_digest
