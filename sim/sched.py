"""Deterministic baton-passing scheduler over real OS threads, with a virtual clock.

Exactly one sim-thread executes at any instant.  A thread runs until its next *yield point*
(simulated socket operation, select, sleep, shared-lock acquire/release, thread start/join, or a
tape-chosen line-level pre-emption inside listed functions), then the yielding thread itself picks
the next thread to run from the decision tape and hands it the baton.  When nobody is runnable the
virtual clock jumps to the earliest wake-up time; when there is none the run ends in DEADLOCK.
"""
import gc
import hashlib
import math
import os
import sys
import threading
import traceback

INF = float('inf')

CUR = None          # the active Sched of this process (one run per forked child)


def cur():
    return CUR


class Waiter(object):
    """What a parked thread is waiting for."""
    __slots__ = ('cond', 'deadline', 'cond_time', 'why')

    def __init__(self, cond=None, deadline=INF, cond_time=None, why=''):
        self.cond = cond                # () -> bool, evaluated at scheduling decisions
        self.deadline = deadline        # virtual time at which it becomes runnable regardless
        self.cond_time = cond_time      # () -> earliest virtual time cond may turn true by itself
        self.why = why

    def ready(self, now):
        if now >= self.deadline:
            return True
        return bool(self.cond()) if self.cond is not None else False

    def wake_time(self):
        t = self.deadline
        if self.cond_time is not None:
            t = min(t, self.cond_time())
        return t


class SimAbort(BaseException):
    """Raised inside a sim-thread to unwind it when the run is being torn down."""


class Sched(object):
    def __init__(self, tape, policy='sticky', max_steps=200000, max_time=3600.0 * 24 * 365,
                 start_time=1000000.0, preempt_budget=0, preempt_gap=400, keep_events=400):
        self.tape = tape
        self.policy = policy
        self.now = start_time
        self.start_time = start_time
        self.threads = []
        self.current = None
        self.running = False
        self.steps = 0                  # scheduling decisions with a real choice
        self.decisions = 0              # all scheduling decisions (also forced ones)
        self.traced_callers = {}        # code -> set of caller codes: trace that function only when called from these
        self.hold_choices = (0, 3, 12, 50, 200)
        self.hold_time_choices = (0.0, 0.0, 0.004, 0.03, 0.25)   # virtual seconds a held thread may stay descheduled
        self.gc_tick = 0
        self.in_gc = False
        self.unlock_budget = None       # None: no limit; n: at most n stalls after a lock release in this run
        self.unlock_stall = (1, 2)      # chance that an unlock-hold is a stall (needs stall_choices)
        self.unlock_hold = None         # (n, d): chance that a thread releasing a shared lock is held back
        self.stall_choices = ()         # virtual seconds a pre-empted thread may lose (off by default)
        self.stall_chance = (1, 2)
        self.stalls = 0
        self.switches = 0               # actual context switches
        self.seq = 0                    # global event sequence number
        self.max_steps = max_steps
        self.max_time = start_time + max_time
        self.failure = None             # ('DEADLOCK'|'STEP_CAP'|'TIME_CAP', detail)
        self.finished = threading.Event()
        self.stop_when = None           # () -> bool, checked at every scheduling decision
        self.stopped = False
        self.h = hashlib.sha256()
        self.events = []
        self.keep_events = keep_events if not os.environ.get('VERIF_EVENTS') else 100000
        self.nevents = 0
        self.probes = {}
        self.sched_sig = hashlib.sha256()   # signature of the context-switch sequence only
        # pre-emption
        self.traced_codes = {}
        self.preempt_left = preempt_budget
        self.preempt_gap = preempt_gap
        self.line_count = 0
        self.next_preempt = -1
        self.preempts = 0
        self.uncaught = []              # (tid, repr(exc)) exceptions that escaped a sim-thread
        self.prio = {}
        self.pct_changes = set()
        self.call_count = 0
        self.work_cap_hit = None
        self.count_calls = False

    # ------------------------------------------------------------------ logging / probes
    def log(self, kind, *fields):
        self.seq += 1
        ent = (self.seq, kind) + fields
        self.h.update(repr(ent).encode())
        self.nevents += 1
        if len(self.events) < self.keep_events:
            self.events.append(ent)
        return self.seq

    def probe(self, name, n=1):
        self.probes[name] = self.probes.get(name, 0) + n

    def digest(self):
        return self.h.hexdigest()

    # ------------------------------------------------------------------ thread management
    def register(self, th, name=None, trace=False):
        th._sim_tid = len(self.threads)
        th._sim_state = 'ready'
        th._sim_waiter = None
        th._sim_trace = trace
        th._sim_name = name or ('t%d' % th._sim_tid)
        th._sim_exc = None
        th._sim_hold = 0
        th._sim_hold_t = 0.0
        th._sim_calls = 0
        th._sim_call_cap = 0
        self.threads.append(th)
        if self.policy == 'pct':
            self.prio[th._sim_tid] = 1000 + self.tape.draw(1000, 'prio')
        self.log('thr', th._sim_tid, th._sim_name)
        return th._sim_tid

    def spawn(self, fn, name=None, trace=False, args=()):
        """Create and register a sim-thread running fn(*args).  Does not yield."""
        th = SimThread(target=fn, args=args)
        th.daemon = True
        th._sim_prepare(self, name, trace)
        return th

    def me(self):
        return self.current

    # ------------------------------------------------------------------ running
    def run(self, wall_timeout=None):
        """Called from the (non-sim) main thread: start scheduling; returns when the run ended."""
        global CUR
        assert CUR is self
        self.running = True
        self._arm_preempt()
        nxt = self._pick(None)
        if nxt is None:
            self.running = False
            return
        self._handoff(None, nxt, 'boot')
        self.finished.wait(wall_timeout)
        self.running = False

    def _arm_preempt(self):
        if self.preempt_left > 0:
            # distance (in traced lines) to the next pre-emption: mostly within preempt_gap, sometimes
            # 8x or 64x further, so that the few pre-emptions of a run do not all fall into the first
            # execution of the traced code
            g = self.preempt_gap * (1, 1, 8, 64)[self.tape.draw(4, 'pgapx')]
            self.next_preempt = self.line_count + 1 + self.tape.draw(g, 'pgap')
        else:
            self.next_preempt = -1

    def _end(self, why=None, detail=None):
        if why and not self.failure:
            self.failure = (why, detail)
            self.log('end', why)
        self.stopped = True
        self.finished.set()

    def _runnable(self):
        now = self.now
        out = []
        held = []
        for t in self.threads:
            st = t._sim_state
            if st == 'ready' or (st == 'wait' and t._sim_waiter.ready(now)):
                if t._sim_hold > self.decisions:
                    held.append(t)
                else:
                    out.append(t)
        if not out and held:
            # everybody else is blocked.  A held thread may stay descheduled while the clock moves on
            # to the next timer / segment delivery, as long as that lies within its time allowance
            # (so that requests already in flight from other sessions arrive "during" the pre-emption);
            # otherwise it goes on
            wt = INF
            for t in self.threads:
                if t._sim_state == 'wait':
                    w = t._sim_waiter.wake_time()
                    if w < wt:
                        wt = w
            lim = min(t._sim_hold_t for t in held)
            if wt < INF and wt <= lim:
                return []
            for t in held:
                t._sim_hold = 0
            return held
        return out

    def _pick(self, cur_thread, force_other=False):
        """Decide who runs next (may advance the clock).  None when the run is over."""
        while True:
            if self.stopped:
                return None
            if self.stop_when is not None and self.stop_when():
                self._end()
                return None
            run = self._runnable()
            if run:
                break
            wt = INF
            for t in self.threads:
                if t._sim_state == 'wait':
                    w = t._sim_waiter.wake_time()
                    if w < wt:
                        wt = w
            if wt == INF:
                self._end('DEADLOCK', self.describe_threads())
                return None
            if wt > self.max_time:
                self._end('TIME_CAP', None)
                return None
            if wt > self.now:
                self.now = wt
                self.log('clk', round(wt - self.start_time, 6))
                self._gc()
        self.decisions += 1
        if self.decisions % 256 == 0:
            self._gc()
        if len(run) == 1:
            return run[0]
        self.steps += 1
        if self.steps > self.max_steps:
            self._end('STEP_CAP', None)
            return None
        # order: current first (so that draw 0 == "keep going"), then by tid
        if cur_thread is not None and cur_thread in run:
            run.remove(cur_thread)
            if force_other:
                order = run
            else:
                order = [cur_thread] + run
        else:
            order = run
        if len(order) == 1:
            return order[0]
        pol = self.policy
        if pol == 'random':
            return order[self.tape.draw(len(order), 'sch')]
        if pol == 'pct':
            if self.steps in self.pct_changes and cur_thread is not None:
                self.prio[cur_thread._sim_tid] = min(self.prio.values()) - 1
            best = max(order, key=lambda t: (self.prio[t._sim_tid], -t._sim_tid))
            return best
        # sticky: mostly keep the current thread, sometimes switch
        if order[0] is cur_thread and not force_other:
            if not self.tape.chance(1, 4, 'sw?'):
                return cur_thread
            return order[1 + self.tape.draw(len(order) - 1, 'sch')]
        return order[self.tape.draw(len(order), 'sch')]

    def _gc(self):
        """Deterministic garbage collection: young objects at every call, older generations at every
        8th / 64th.  Finalizers that touch the simulation (socket close, lock release inside a
        generator's cleanup) take effect without becoming scheduling points."""
        self.gc_tick += 1
        gen = 2 if self.gc_tick % 64 == 0 else 1 if self.gc_tick % 8 == 0 else 0
        self.in_gc = True
        try:
            gc.collect(gen)
        finally:
            self.in_gc = False

    def _handoff(self, frm, to, why):
        self.switches += 1
        ft = frm._sim_tid if frm is not None else -1
        self.sched_sig.update(b'%d>%d;' % (ft, to._sim_tid))
        self.log('sw', ft, to._sim_tid, why)
        to._sim_state = 'run'
        to._sim_waiter = None
        self.current = to
        to._sim_baton.release()

    def _switch(self, why, force_other=False):
        """Called by the current sim-thread after it has set its own state (ready/wait/done)."""
        me = self.current
        nxt = self._pick(me, force_other)
        if nxt is me:
            me._sim_state = 'run'
            me._sim_waiter = None
            return
        if nxt is None:
            # run over: park forever (the process will _exit) unless this thread is done anyway.
            # No exception is raised into the thread: cpppo has bare `except:` clauses that would
            # swallow it and let the thread run on unscheduled.
            if me._sim_state != 'done':
                self._park_forever()
            return
        self._handoff(me, nxt, why)
        if me._sim_state != 'done':
            me._sim_baton.acquire()
            if self.stopped:
                self._park_forever()

    def _park_forever(self):
        sys.settrace(None)
        ev = threading.Event()
        while True:
            ev.wait(3600)

    # ------------------------------------------------------------------ yield points
    def in_sim(self):
        if not self.running or self.stopped or self.in_gc:
            return False
        c = self.current
        return c is not None and c.ident == threading.get_ident()

    def yield_(self, why='y', force_other=False):
        if not self.in_sim():
            return
        me = self.current
        me._sim_state = 'ready'
        self._switch(why, force_other)

    def block(self, waiter):
        """Park the current thread until waiter.ready(); returns True if cond holds, False on timeout."""
        if not self.in_sim():
            # outside the simulation nothing else can run: evaluate once
            return bool(waiter.cond()) if waiter.cond else False
        me = self.current
        if waiter.cond is not None and waiter.cond():
            # still a scheduling point
            me._sim_state = 'ready'
            self._switch(waiter.why)
            return bool(waiter.cond())
        me._sim_state = 'wait'
        me._sim_waiter = waiter
        self._switch(waiter.why)
        return bool(waiter.cond()) if waiter.cond is not None else False

    def sleep(self, d):
        if not self.in_sim():
            return
        if d is None or d <= 0:
            self.yield_('sleep0')
            return
        dl = self.now + d
        if dl <= self.now:
            # a positive sleep always lets time pass (the virtual clock starts at 1e6 s, where a
            # sub-nanosecond remainder would otherwise round to "now" and a wait loop would spin)
            dl = math.nextafter(self.now, INF)
        self.block(Waiter(cond=None, deadline=dl, why='sleep'))

    def thread_exit(self, th):
        th._sim_state = 'done'
        self.log('exit', th._sim_tid)
        if self.current is th:
            self._switch('exit')

    # ------------------------------------------------------------------ line-level pre-emption
    def add_traced(self, fn):
        code = getattr(fn, '__code__', None)
        if code is None:
            f = getattr(fn, '__func__', None)
            code = getattr(f, '__code__', None)
        if code is not None:
            self.traced_codes[code] = code.co_name
        return code is not None

    def tracefn(self, frame, event, arg):
        if event == 'call':
            if self.count_calls:
                self.call_count += 1
                c = self.current
                if c is not None:
                    c._sim_calls += 1
                    if c._sim_call_cap and c._sim_calls > c._sim_call_cap:
                        # bounded-work oracle (C08): this thread has executed far more calls than its
                        # input can justify; end the run here instead of hanging the simulation
                        c._sim_call_cap = 0
                        self.work_cap_hit = (c._sim_tid, c._sim_calls, frame.f_code.co_name)
                        self.log('workcap', c._sim_tid)
                        self._end('WORK_CAP', 'thread %d exceeded its call budget in %s' % (c._sim_tid, frame.f_code.co_name))
                        self._park_forever()
            if frame.f_code in self.traced_codes:
                allowed = self.traced_callers.get(frame.f_code)
                if allowed is None or (frame.f_back is not None and frame.f_back.f_code in allowed):
                    return self._local_trace
        return None

    def _local_trace(self, frame, event, arg):
        if event == 'line':
            self.line_count += 1
            if self.line_count == self.next_preempt:
                self._preempt(frame)
        return self._local_trace

    def _preempt(self, frame):
        if self.preempt_left <= 0 or not self.in_sim():
            return
        self.preempt_left -= 1
        self.preempts += 1
        code = frame.f_code
        self.log('pre', code.co_name, frame.f_lineno - code.co_firstlineno)
        self.probe('preempt:' + code.co_name)
        self._arm_preempt()
        if self.stall_choices and self.tape.chance(self.stall_chance[0], self.stall_chance[1], 'stall?'):
            # a stalled thread (descheduled / paged out / slow node): it loses a stretch of *virtual
            # time* at this line, so timers expire and delayed segments arrive meanwhile
            d = self.tape.choice(self.stall_choices, 'stall')
            self.stalls += 1
            self.log('stall', code.co_name, d)
            self.probe('stall:' + code.co_name)
            self.sleep(d)
            return
        # hold the pre-empted thread back for a tape-chosen number of scheduling decisions (PCT-style
        # priority drop): the others run into the window it left open
        self.current._sim_hold = self.decisions + self.tape.choice(self.hold_choices, 'hold')
        self.current._sim_hold_t = self.now + self.tape.choice(self.hold_time_choices, 'holdt')
        self.yield_('preempt', force_other=True)

    # ------------------------------------------------------------------ diagnostics
    def describe_threads(self):
        out = []
        frames = sys._current_frames()
        for t in self.threads:
            w = t._sim_waiter.why if t._sim_waiter is not None else ''
            ent = {'tid': t._sim_tid, 'name': t._sim_name, 'state': t._sim_state, 'wait': w}
            if t._sim_state in ('wait', 'ready', 'run', 'running') and t.ident in frames:
                st = traceback.extract_stack(frames[t.ident])
                ent['stack'] = ['%s:%d %s' % (f.filename.rsplit('/', 1)[-1], f.lineno, f.name)
                                for f in st[-10:]]
            out.append(ent)
        return out


class SimThread(threading.Thread):
    """threading.Thread whose start/join/is_alive go through the scheduler when one is active."""

    _sim_tid = None
    _sim_sched = None

    def _sim_prepare(self, sched, name=None, trace=False):
        self._sim_sched = sched
        self._sim_baton = threading.Semaphore(0)
        sched.register(self, name=name, trace=trace)
        orig_run = self.run

        def _sim_main():
            self._sim_baton.acquire()
            if sched.stopped:
                return
            try:
                if self._sim_trace and (sched.traced_codes or sched.count_calls):
                    sys.settrace(sched.tracefn)
                orig_run()
            except SimAbort:
                sys.settrace(None)
                return
            except BaseException as exc:            # escaped the thread's own handlers
                sys.settrace(None)
                self._sim_exc = exc
                sched.uncaught.append((self._sim_tid, type(exc).__name__, str(exc)[:300]))
                sched.log('uncaught', self._sim_tid, type(exc).__name__)
            finally:
                sys.settrace(None)
            try:
                sched.thread_exit(self)
            except SimAbort:
                pass
        self.run = _sim_main
        threading.Thread.start(self)

    def start(self):
        s = CUR
        if s is None or self._sim_sched is not None:
            if self._sim_sched is not None:
                return                  # already started by spawn()
            return threading.Thread.start(self)
        trace = getattr(self, '_sim_want_trace', getattr(type(self), 'SIM_TRACE', False))
        self._sim_prepare(s, name=getattr(self, '_sim_want_name', None), trace=trace)
        s.yield_('start')

    def is_alive(self):
        if self._sim_sched is None:
            return threading.Thread.is_alive(self)
        return self._sim_state != 'done'

    def join(self, timeout=None):
        s = self._sim_sched
        if s is None:
            return threading.Thread.join(self, timeout)
        if not s.in_sim():
            return
        dl = INF if timeout is None else s.now + timeout
        s.block(Waiter(cond=lambda: self._sim_state == 'done', deadline=dl, why='join'))


class SimLock(object):
    """threading.Lock replacement.  Never blocks the OS thread: a contended acquire parks the
    sim-thread in the scheduler.  Only locks marked shared are scheduling points."""
    __slots__ = ('owner', 'shared', 'name')

    new_shared = False          # a world may make every lock created during its run a scheduling point

    def __init__(self, shared=False, name=''):
        self.owner = None
        self.shared = shared or SimLock.new_shared
        self.name = name or ('dyn' if SimLock.new_shared else '')

    def acquire(self, blocking=True, timeout=-1):
        s = CUR
        if s is None or not s.in_sim():
            if self.owner is not None:
                if not blocking:
                    return False
                raise RuntimeError('SimLock %s contended outside the simulation' % self.name)
            self.owner = -1
            return True
        me = s.current
        if self.shared:
            s.yield_('lock')
        if self.owner is not None:
            if not blocking:
                return False
            s.probe('lock_contended')
            if self.shared:
                s.probe('lock_contended:' + self.name)
            dl = INF if (timeout is None or timeout < 0) else s.now + timeout
            s.block(Waiter(cond=lambda: self.owner is None, deadline=dl, why='lock:' + self.name))
            if self.owner is not None:
                return False
        self.owner = me._sim_tid
        return True

    def release(self):
        if self.owner is None:
            raise RuntimeError('release unlocked lock')
        self.owner = None
        if self.shared:
            s = CUR
            if s is not None and s.in_sim():
                if s.unlock_hold and s.tape.chance(s.unlock_hold[0], s.unlock_hold[1], 'uhold?'):
                    # the releasing thread loses the processor right after the release: the others
                    # run into whatever it was going to do next with the formerly protected state
                    s.probe('unlock_hold')
                    if s.stall_choices and s.unlock_budget != 0 and s.tape.chance(s.unlock_stall[0], s.unlock_stall[1], 'ustall?'):
                        if s.unlock_budget is not None:
                            s.unlock_budget -= 1
                        # ... or it loses a stretch of virtual time right there (stalled thread)
                        d = s.tape.choice(s.stall_choices, 'ustall')
                        s.stalls += 1
                        s.log('stall', 'unlock:' + self.name, d)
                        s.probe('stall:unlock')
                        s.sleep(d)
                        return
                    s.current._sim_hold = s.decisions + s.tape.choice(s.hold_choices, 'uhold')
                    s.current._sim_hold_t = s.now + s.tape.choice(s.hold_time_choices, 'uholdt')
                    s.yield_('unlock', force_other=True)
                else:
                    s.yield_('unlock')

    def locked(self):
        return self.owner is not None

    def __enter__(self):
        self.acquire()
        return True

    def __exit__(self, *exc):
        self.release()
        return False


def activate(sched):
    global CUR
    CUR = sched
    return sched
