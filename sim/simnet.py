"""Simulated TCP (and just enough of the socket/select module API) on top of sim.sched.

A connection is two independent byte pipes.  send() always accepts everything (see DESIGN 2.1),
cuts the bytes into segments as the pipe's cutter says and stamps each with a delivery time that
never decreases; recv() returns bytes of the first delivered segment only, so the segmentation the
application observes is exactly the one the simulator chose.  Per-pipe faults are expressed as what
an application above TCP can observe: bytes up to an offset then FIN / RST / silence, a whole
send() lost, latency.
"""
import errno
import socket as _real_socket

from . import sched as _sched
from .sched import Waiter, INF

error = _real_socket.error
timeout = _real_socket.timeout

FIN, RST, STALL = 'FIN', 'RST', 'STALL'


class Pipe(object):
    """One direction of a connection."""

    def __init__(self, net, name):
        self.net = net
        self.name = name
        self.segs = []              # [deliver_time, bytearray]   (FIFO)
        self.written = 0            # bytes accepted from the sender (before faults)
        self.delivered = 0          # bytes handed to the reader
        self.last_t = 0.0
        self.fin = False            # sender closed / shut down its write side
        self.fin_t = 0.0
        self.rst = False            # reader sees ECONNRESET after draining
        self.dead = False           # STALL: nothing is delivered any more
        self.cutter = None          # f(n) -> sorted cut offsets inside (0,n)
        self.latency = None         # f() -> seconds
        self.coalesce = False
        self.cut_at = None          # fault: byte offset
        self.cut_kind = None
        self.cut_fired = False
        self.drop_sends = ()        # indices of send() calls that are lost entirely
        self.nsends = 0
        self.sends = []             # tap: (seq, offset_after, nbytes)
        self.reads = []             # tap: (seq, offset_after)
        self.data = bytearray()     # tap: every byte accepted for delivery (after faults)
        self.on_cut = None          # callback when the cut fires (to end the reverse pipe)
        self.short_read = None      # f(avail) -> n <= avail
        self.capacity = None        # bytes that may sit unread before send() blocks (None: unbounded)

    # -- sender side
    def write(self, data):
        s = self.net.sched
        n = len(data)
        idx = self.nsends
        self.nsends += 1
        if self.dead or self.cut_fired:
            self.written += n
            return n
        if self.fin:
            raise error(errno.EPIPE, 'Broken pipe')
        if self.rst:
            raise error(errno.EPIPE, 'Broken pipe')
        self.written += n
        if idx in self.drop_sends:
            self.net.fired('DROP_FRAME')
            s.log('drop', self.name, idx, n)
            return n
        data = bytes(data)
        if self.cut_at is not None and len(self.data) + len(data) > self.cut_at:
            keep = max(0, self.cut_at - len(self.data))
            data = data[:keep]
            self._enqueue(data)
            self._fire_cut()
            return n
        self._enqueue(data)
        if self.cut_at is not None and len(self.data) >= self.cut_at:
            # the cut offset is the end of what was just written (e.g. exactly between two replies):
            # the connection ends right behind it, not only when the writer tries to write more
            self._fire_cut()
        return n

    def _fire_cut(self):
        s = self.net.sched
        self.cut_fired = True
        self.net.fired('CUT_' + self.cut_kind)
        s.log('cut', self.name, self.cut_kind, len(self.data))
        if self.cut_kind == FIN:
            self.fin = True
            self.fin_t = max(self.last_t, s.now)
        elif self.cut_kind == RST:
            self.rst = True
            self.fin_t = max(self.last_t, s.now)
        else:
            self.dead = True
        if self.on_cut is not None:
            self.on_cut(self)

    def _enqueue(self, data):
        if not data:
            return
        s = self.net.sched
        self.data += data
        cuts = self.cutter(len(data)) if self.cutter is not None else ()
        prev = 0
        parts = []
        for c in cuts:
            if prev < c < len(data):
                parts.append(data[prev:c])
                prev = c
        parts.append(data[prev:])
        if len(parts) > 1:
            self.net.fired('SEGMENT_SPLIT', len(parts) - 1)
        for i, p in enumerate(parts):
            lat = self.latency() if self.latency is not None else 0.0
            if lat > 0:
                self.net.fired('DELAY')
            t = max(self.last_t, s.now + lat)
            self.last_t = t
            if self.coalesce and i == 0 and self.segs and self.segs[-1][0] >= t - 1e-12:
                self.segs[-1][1] += p
            else:
                self.segs.append([t, bytearray(p)])
        self.sends.append((s.seq, len(self.data), len(data)))
        s.log('tx', self.name, len(data), len(parts))

    def close_write(self):
        if not self.fin:
            s = self.net.sched
            self.fin = True
            self.fin_t = max(self.last_t, s.now)
            s.log('fin', self.name)

    def reset(self):
        s = self.net.sched
        if not self.rst:
            self.rst = True
            self.fin_t = s.now
            self.segs = []
            s.log('rst', self.name)

    # -- reader side
    def readable(self):
        """True when recv() would not block: data delivered, or EOF/RST reached."""
        now = self.net.sched.now
        if self.segs:
            return self.segs[0][0] <= now
        if self.dead:
            return False
        return (self.fin or self.rst) and self.fin_t <= now

    def next_time(self):
        if self.segs:
            return self.segs[0][0]
        if self.dead:
            return INF
        if self.fin or self.rst:
            return self.fin_t
        return INF

    def read(self, n):
        """Bytes of the first delivered segment (<= n); b'' at EOF; raises on RST."""
        s = self.net.sched
        if self.segs and self.segs[0][0] <= s.now:
            seg = self.segs[0][1]
            k = min(n, len(seg))
            if self.short_read is not None and k > 1:
                k2 = max(1, min(k, self.short_read(k)))
                if k2 < k:
                    self.net.fired('SHORT_READ')
                k = k2
            out = bytes(seg[:k])
            del seg[:k]
            if not seg:
                self.segs.pop(0)
            self.delivered += len(out)
            self.reads.append((s.seq, self.delivered))
            s.log('rx', self.name, len(out))
            return out
        if self.rst and not self.segs:
            raise error(errno.ECONNRESET, 'Connection reset by peer')
        if self.fin and not self.segs:
            s.log('eof', self.name)
            return b''
        return None


class SimSocket(object):
    family = _real_socket.AF_INET
    type = _real_socket.SOCK_STREAM
    proto = 0

    def __init__(self, net, family=_real_socket.AF_INET, type=_real_socket.SOCK_STREAM, proto=0):
        self.net = net
        self.family = family
        self.type = type
        self.fd = net.new_fd(self)
        self.rx = None
        self.tx = None
        self.listening = False
        self.backlog = []
        self.addr = None
        self.peer = None
        self.closed = False
        self._timeout = None
        self.conn_index = None

    # -- trivial API
    def fileno(self):
        return self.fd if not self.closed else -1

    def setsockopt(self, *a):
        pass

    def getsockopt(self, *a):
        return 0

    def settimeout(self, t):
        self._timeout = t

    def gettimeout(self):
        return self._timeout

    def setblocking(self, flag):
        self._timeout = None if flag else 0.0

    def getsockname(self):
        return self.addr or ('0.0.0.0', 0)

    def getpeername(self):
        if self.peer is None:
            raise error(errno.ENOTCONN, 'not connected')
        if self.rx is not None and self.rx.rst and self.rx.fin_t <= self.net.sched.now:
            # the peer has reset the connection (possibly while it still sat in the listen backlog):
            # accept() hands the socket out all the same, but it is no longer connected
            raise error(errno.ENOTCONN, 'Transport endpoint is not connected')
        return self.peer

    def __enter__(self):
        return self

    def __exit__(self, *a):
        self.close()

    def __repr__(self):
        return '<SimSocket fd=%d %s>' % (self.fd, 'listen' if self.listening else self.peer)

    # -- server side
    def bind(self, address):
        host, port = address
        if not port:
            port = self.net.alloc_port()
        self.addr = (host, port)

    def listen(self, backlog=5):
        self.listening = True
        self.net.listeners[self.addr[1]] = self
        self.net.sched.log('listen', self.addr[1])

    def accept(self):
        s = self.net.sched
        while True:
            s.yield_('accept')
            if self.closed:
                raise error(errno.EBADF, 'closed')
            if self.backlog:
                conn = self.backlog.pop(0)
                s.log('accept', conn.conn_index)
                return conn, conn.peer
            if self._timeout == 0.0:
                raise BlockingIOError(errno.EAGAIN, 'would block')
            dl = INF if self._timeout is None else s.now + self._timeout
            ok = s.block(Waiter(cond=lambda: bool(self.backlog) or self.closed, deadline=dl, why='accept'))
            if not ok and not self.backlog:
                raise timeout('timed out')

    # -- client side
    def connect(self, address):
        self.net.connect(self, address)

    # -- data
    def _check(self):
        if self.closed:
            raise error(errno.EBADF, 'Bad file descriptor')
        if self.tx is None:
            raise error(errno.ENOTCONN, 'not connected')

    def send(self, data, flags=0):
        s = self.net.sched
        s.yield_('send')
        self._check()
        tx = self.tx
        if tx.capacity is not None and not (tx.dead or tx.cut_fired):
            # back-pressure: the peer's receive window and our send buffer are full until it reads.
            # A blocking socket waits; one with a timeout raises socket.timeout (nothing was sent).
            def room():
                unread = sum(len(sg[1]) for sg in tx.segs)
                return unread == 0 or unread + len(data) <= tx.capacity or tx.fin or tx.rst or self.closed
            if not room():
                self.net.fired('SEND_BLOCKED')
                if self._timeout == 0.0:
                    raise BlockingIOError(errno.EAGAIN, 'would block')
                dl = INF if self._timeout is None else s.now + self._timeout
                s.block(Waiter(cond=room, deadline=dl, why='send-buffer'))
                if not room():
                    self.net.fired('SEND_TIMEOUT')
                    raise timeout('timed out')
                self._check()
        return tx.write(data)

    def sendall(self, data, flags=0):
        self.send(data)
        return None

    def recv(self, n, flags=0):
        s = self.net.sched
        rx = self.rx
        while True:
            s.yield_('recv')
            self._check()
            out = rx.read(n)
            if out is not None:
                return out
            if self._timeout == 0.0:
                raise BlockingIOError(errno.EAGAIN, 'would block')
            dl = INF if self._timeout is None else s.now + self._timeout
            ok = s.block(Waiter(cond=lambda: rx.readable() or self.closed, deadline=dl,
                                cond_time=rx.next_time, why='recv'))
            if self.closed:
                raise error(errno.EBADF, 'Bad file descriptor')
            if not ok and not rx.readable():
                raise timeout('timed out')

    def shutdown(self, how):
        s = self.net.sched
        s.yield_('shutdown')
        self._check()
        if how in (_real_socket.SHUT_WR, _real_socket.SHUT_RDWR):
            self.tx.close_write()

    def close(self):
        if self.closed:
            return
        s = self.net.sched
        s.yield_('close')
        if self.closed:
            return
        self.closed = True
        self.net.fds.pop(self.fd, None)
        if self.listening:
            self.net.listeners.pop(self.addr[1], None)
            for c in self.backlog:
                c.closed = True
            return
        if self.tx is not None:
            # closing with unread input sends RST in real TCP; we model the common case (FIN)
            self.tx.close_write()
        s.log('close', self.conn_index, self.side if hasattr(self, 'side') else '?')

    def readable(self):
        if self.closed:
            return True
        if self.listening:
            return bool(self.backlog)
        return self.rx is not None and self.rx.readable()

    def next_time(self):
        if self.listening or self.rx is None:
            return INF
        return self.rx.next_time()


class Net(object):
    """The simulated network: listeners, connections, fault plans, taps."""

    def __init__(self, sched):
        self.sched = sched
        self.fds = {}
        self.next_fd = 100
        self.next_port = 50000
        self.listeners = {}
        self.conns = []                 # (client_sock, server_sock) in connect order
        self.faults_fired = {}
        self.conn_plan = None           # f(index, c2s_pipe, s2c_pipe, peer_addr): configure a new connection
        self.refuse = None              # f(address) -> None | 'REFUSE' | 'TIMEOUT'
        self.connect_latency = 0.0
        self.reuse_ports = None         # f() -> bool: may a new connection re-use a fully closed one's port?

    def fired(self, kind, n=1):
        self.faults_fired[kind] = self.faults_fired.get(kind, 0) + n

    def new_fd(self, sock):
        fd = self.next_fd
        self.next_fd += 1
        self.fds[fd] = sock
        return fd

    def alloc_port(self):
        p = self.next_port
        self.next_port += 1
        return p

    def connect(self, sock, address, tmo=None):
        s = self.sched
        s.yield_('connect')
        host, port = address[0], address[1]
        verdict = self.refuse(address) if self.refuse is not None else None
        if verdict == 'REFUSE':
            self.fired('REFUSE')
            s.log('refused', port)
            raise ConnectionRefusedError(errno.ECONNREFUSED, 'Connection refused')
        if verdict == 'TIMEOUT':
            self.fired('CONNECT_TIMEOUT')
            s.log('ctimeout', port)
            s.sleep(tmo if tmo is not None else 75.0)
            raise timeout('timed out')
        lst = self.listeners.get(port)
        if lst is None or lst.closed:
            s.log('refused', port)
            raise ConnectionRefusedError(errno.ECONNREFUSED, 'Connection refused')
        idx = len(self.conns)
        port_c = None
        if self.reuse_ports is not None:
            # ephemeral-port wrap-around / NAT re-use: a new connection may come from the address of an
            # earlier connection that is completely closed on both sides
            free = [c.addr[1] for c, sv in self.conns if c.closed and sv.closed and
                    not any((c2.addr[1] == c.addr[1]) and not (c2.closed and s2.closed) for c2, s2 in self.conns)]
            if free and self.reuse_ports():
                port_c = free[-1]
                self.fired('PORT_REUSED')
        sock.addr = ('127.0.0.1', port_c if port_c is not None else self.alloc_port())
        sock.peer = (host, port)
        srv = SimSocket(self)
        srv.addr = lst.addr
        srv.peer = sock.addr
        c2s = Pipe(self, 'c%d>' % idx)
        s2c = Pipe(self, 'c%d<' % idx)
        sock.tx, sock.rx = c2s, s2c
        srv.tx, srv.rx = s2c, c2s
        sock.conn_index = srv.conn_index = idx
        sock.side, srv.side = 'c', 's'
        self.conns.append((sock, srv))
        if self.conn_plan is not None:
            self.conn_plan(idx, c2s, s2c, sock.addr)
        lst.backlog.append(srv)
        s.log('connect', idx, port)
        if self.connect_latency:
            s.sleep(self.connect_latency)

    def select(self, rlist, wlist, xlist, tmo=None):
        s = self.sched
        s.yield_('select')

        def sock_of(x):
            if isinstance(x, SimSocket):
                return x
            return self.fds.get(x)

        def ready():
            r = [x for x in rlist if (sock_of(x) is None or sock_of(x).readable())]
            return r
        r = ready()
        if not r and not wlist:
            if tmo is None or tmo > 0:
                dl = INF if tmo is None else s.now + tmo

                def ctime():
                    t = INF
                    for x in rlist:
                        so = sock_of(x)
                        if so is not None:
                            t = min(t, so.next_time())
                    return t
                s.block(Waiter(cond=lambda: bool(ready()), deadline=dl, cond_time=ctime, why='select'))
                r = ready()
        return r, list(wlist), []


class SocketModule(object):
    """Stands in for the `socket` module inside cpppo (and pylogix)."""

    def __init__(self):
        self.net = None
        self.error = error
        self.timeout = timeout

    def __getattr__(self, name):
        return getattr(_real_socket, name)

    def socket(self, family=_real_socket.AF_INET, type=_real_socket.SOCK_STREAM, proto=0, fileno=None):
        return SimSocket(self.net, family, type, proto)

    def create_connection(self, address, timeout=None, source_address=None, **kw):
        so = SimSocket(self.net)
        if timeout is not None and timeout is not _real_socket._GLOBAL_DEFAULT_TIMEOUT:
            so.settimeout(timeout)
        self.net.connect(so, address, tmo=so._timeout)
        return so

    def getaddrinfo(self, host, port, *a, **kw):
        return [(_real_socket.AF_INET, _real_socket.SOCK_STREAM, 6, '', (host, port))]

    def gethostbyname(self, host):
        return host


class SelectModule(object):
    error = OSError

    def __init__(self):
        self.net = None

    def select(self, r, w, x, timeout=None):
        return self.net.select(r, w, x, timeout)


class TimeModule(object):
    """Stands in for the `time` module where cpppo sleeps."""

    def __getattr__(self, name):
        import time as _t
        return getattr(_t, name)

    def sleep(self, d):
        s = _sched.CUR
        if s is not None and s.in_sim():
            s.sleep(d)

    def time(self):
        s = _sched.CUR
        return s.now if s is not None else 0.0


def timer():
    s = _sched.CUR
    return s.now if s is not None else 0.0
