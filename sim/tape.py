"""Decision tapes: the single source of every choice made in one simulated run.

One integer seed derives a small set of named streams (e.g. 'gen' for the generated workload, 'sch'
for scheduling/network/fault decisions).  Generation mode: values come from random.Random and are
recorded.  Replay mode: values are read back from the recorded lists; beyond the end of a list
every draw is 0, which is by construction the simplest choice everywhere in the simulator (keep
running the current thread, no cut, zero latency, no fault, smallest value).

Nothing here reads a clock or any other source of nondeterminism.
"""
import hashlib
import random


def mix(seed, *parts):
    """Deterministic 63-bit mix of an integer seed and strings/ints (no hash())."""
    h = hashlib.sha256(repr((seed,) + parts).encode()).digest()
    return int.from_bytes(h[:8], 'big') >> 1


class Tape(object):
    __slots__ = ('rng', 'record', 'replay', 'pos')

    def __init__(self, seed=0, replay=None):
        self.rng = random.Random(seed) if replay is None else None
        self.replay = list(replay) if replay is not None else None
        self.record = []
        self.pos = 0

    def draw(self, n, label=''):
        """An integer in [0, n).  n <= 1 draws nothing and returns 0."""
        if n <= 1:
            return 0
        if self.replay is None:
            v = self.rng.randrange(n)
        else:
            v = self.replay[self.pos] if self.pos < len(self.replay) else 0
            if v >= n or v < 0:
                v = v % n
        self.pos += 1
        self.record.append(v)
        return v

    # conveniences built on draw() only
    def chance(self, num, den, label=''):
        """True with probability num/den; False is the 'simple' outcome (low draw values)."""
        if num <= 0:
            return False
        return self.draw(den, label) >= den - num

    def choice(self, seq, label=''):
        return seq[self.draw(len(seq), label)]

    def between(self, lo, hi, label=''):
        """Integer in [lo, hi] inclusive."""
        return lo + self.draw(hi - lo + 1, label)

    def weighted(self, pairs, label=''):
        """pairs: [(weight, value), ...]; the first entry is the 'simple' one."""
        total = sum(w for w, _ in pairs)
        v = self.draw(total, label)
        for w, val in pairs:
            if v < w:
                return val
            v -= w
        return pairs[-1][1]


class Tapes(object):
    """Named streams derived from one seed (or replayed from recorded lists)."""

    def __init__(self, seed=0, replay=None):
        self.seed = seed
        self.replay = replay            # None or {name: [values]}
        self.streams = {}

    def stream(self, name):
        t = self.streams.get(name)
        if t is None:
            if self.replay is None:
                t = Tape(mix(self.seed, name))
            else:
                t = Tape(replay=self.replay.get(name, []))
            self.streams[name] = t
        return t

    @property
    def gen(self):
        return self.stream('gen')

    @property
    def sch(self):
        return self.stream('sch')

    def records(self):
        return {k: list(t.record) for k, t in self.streams.items()}
