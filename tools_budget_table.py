#!/usr/bin/env python3
"""Print the measured-budget tables of DESIGN.md section 7 from evidence/*.json and soak/*.thorough.json."""
import glob
import json
import os
HERE = os.path.dirname(os.path.abspath(__file__))
print('| check | tier | runs | wall | runs/h | simulated s | faults fired (top) |')
print('|---|---|---|---|---|---|---|')
for pat in ('evidence/C*.json', 'soak/C*.thorough.json'):
    for f in sorted(glob.glob(os.path.join(HERE, pat))):
        d = json.load(open(f))
        c = d['coverage']
        ff = sorted((c.get('faults_fired') or {}).items(), key=lambda kv: -kv[1])[:4]
        print('| %s | %s | %d | %.0f s | %d k | %.0f | %s |' % (d['property_id'], d['tier'], c['evaluations'], d['wall_s'], c['runs_per_hour'] // 1000,
                                                          c.get('simulated_seconds', 0), ', '.join('%s %d' % kv for kv in ff)))
