#!/usr/bin/env python3
"""Evaluate one seeded change delivered by a sub-agent.

  tools_mutant.py <agent-dir> <mN> <seeded-id> [--checks C09,C07] [--count N] [--tests "<pytest args>"] [--tier quick]

1. scratch worktree of /repo HEAD under /tmp/mutchk_<id>, patch applied;
2. the demonstration must fail with the patch and pass without;
3. (optional) the named existing tests run on the patched tree;
4. the named checks run against the patched tree (VERIF_REPO);
5. on success the change is copied to /verif/seeded/<seeded-id>/ with meta.json extended by what was run.
The scratch worktree is removed at the end.
"""
import argparse
import json
import os
import shutil
import subprocess
import sys
import time

HERE = os.path.dirname(os.path.abspath(__file__))


def sh(cmd, env=None, cwd=None, timeout=3600):
    e = dict(os.environ)
    if env:
        e.update(env)
    p = subprocess.run(cmd, shell=True, env=e, cwd=cwd, capture_output=True, text=True, timeout=timeout)
    return p.returncode, (p.stdout or '') + (p.stderr or '')


def main():
    ap = argparse.ArgumentParser()
    ap.add_argument('agent')
    ap.add_argument('mut')
    ap.add_argument('sid')
    ap.add_argument('--checks', default=None)
    ap.add_argument('--count', type=int, default=None)
    ap.add_argument('--tests', default=None)
    ap.add_argument('--tier', default='quick')
    ap.add_argument('--seed', type=int, default=1)
    ap.add_argument('--keep', action='store_true')
    a = ap.parse_args()
    src = os.path.join(a.agent, 'out', a.mut)
    meta = json.load(open(os.path.join(src, 'meta.json')))
    prop = meta.get('property') or a.sid.split('-')[0]
    scratch = '/tmp/mutchk_%s' % a.sid
    sh('git -C /repo worktree remove --force %s/wt' % scratch)
    shutil.rmtree(scratch, ignore_errors=True)
    os.makedirs(scratch + '/pkg')
    rc, out = sh('git -C /repo worktree add -q %s/wt HEAD' % scratch)
    assert rc == 0, out
    os.symlink(scratch + '/wt', scratch + '/pkg/cpppo')
    res = {'seeded_id': a.sid, 'property': prop}
    try:
        env = {'PYTHONPATH': scratch + '/pkg'}
        demo = os.path.join(src, 'demo.py')
        # the demo may hard-code the agent's directory: point it at the scratch copy
        text = open(demo).read().replace(a.agent.rstrip('/'), scratch)
        os.makedirs(scratch + '/out/' + a.mut)
        open(scratch + '/out/%s/demo.py' % a.mut, 'w').write(text)
        t0 = time.time()
        rc_clean, out_clean = sh('/venv/bin/python out/%s/demo.py' % a.mut, env=env, cwd=scratch, timeout=900)
        rc, out = sh('git -C %s/wt apply %s' % (scratch, os.path.join(src, 'patch.diff')))
        assert rc == 0, 'patch does not apply: ' + out
        rc_mut, out_mut = sh('/venv/bin/python out/%s/demo.py' % a.mut, env=env, cwd=scratch, timeout=900)
        res['demo'] = {'clean_exit': rc_clean, 'mutant_exit': rc_mut, 'mutant_tail': out_mut[-300:], 'wall_s': round(time.time() - t0, 1)}
        res['demo_confirmed'] = (rc_clean == 0 and rc_mut != 0)
        if a.tests:
            rc_t, out_t = sh('timeout 1500 /venv/bin/python -m pytest -q -p no:cacheprovider %s' % a.tests, env=env, cwd=scratch + '/wt', timeout=1600)
            res['tests'] = {'cmd': a.tests, 'exit': rc_t, 'tail': out_t.strip().splitlines()[-1:] if out_t.strip() else []}
        checks = (a.checks or prop).split(',')
        res['checks'] = {}
        for c in checks:
            cmd = './check %s --tier %s --seed %d' % (c, a.tier, a.seed) + (' --count %d' % a.count if a.count else '')
            t0 = time.time()
            rc_c, out_c = sh(cmd, env={'VERIF_REPO': scratch + '/wt', 'VERIF_SHRINK_S': '15'}, cwd=HERE, timeout=7200)
            lines = [l for l in out_c.splitlines() if l.startswith('VIOLATION') or l.startswith('  class=')]
            res['checks'][c] = {'cmd': cmd, 'exit': rc_c, 'caught': rc_c == 1, 'wall_s': round(time.time() - t0, 1),
                                'first': lines[1][:400] if len(lines) > 1 else None,
                                'summary': out_c.strip().splitlines()[-1][:200] if out_c.strip() else ''}
        res['caught_by'] = [c for c, v in res['checks'].items() if v['caught']]
        print(json.dumps(res, indent=1))
        if res['demo_confirmed'] or a.keep:
            dst = os.path.join(HERE, 'seeded', a.sid)
            os.makedirs(dst, exist_ok=True)
            shutil.copy(os.path.join(src, 'patch.diff'), dst)
            open(os.path.join(dst, 'demo.py'), 'w').write(open(demo).read())
            meta['verification'] = res
            json.dump(meta, open(os.path.join(dst, 'meta.json'), 'w'), indent=1)
    finally:
        sh('git -C /repo worktree remove --force %s/wt' % scratch)
        shutil.rmtree(scratch, ignore_errors=True)
        # evidence files were rewritten by runs against the scratch tree: restore the committed ones
        sh('git checkout -- evidence', cwd=HERE)


if __name__ == '__main__':
    main()
