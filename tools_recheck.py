#!/usr/bin/env python3
"""Re-run the checks against seeded changes already kept under /verif/seeded.

  tools_recheck.py [--only id-substring,...] [--checks C09,C07] [--seed 1] [--missed]

For each seeded/<id>: scratch worktree of /repo HEAD under /tmp/recheck_<id>, patch applied (a patch
that no longer applies is reported), the checks recorded in meta.json (or --checks) run with
VERIF_REPO pointing at it, meta.json's verification.checks updated.  --missed: only the changes not
caught by the check of their own property last time.
"""
import argparse
import json
import os
import shutil
import subprocess
import time

HERE = os.path.dirname(os.path.abspath(__file__))


def sh(cmd, env=None, cwd=None, timeout=7200):
    e = dict(os.environ)
    if env:
        e.update(env)
    p = subprocess.run(cmd, shell=True, env=e, cwd=cwd, capture_output=True, text=True, timeout=timeout)
    return p.returncode, (p.stdout or '') + (p.stderr or '')


def main():
    ap = argparse.ArgumentParser()
    ap.add_argument('--only', default=None)
    ap.add_argument('--checks', default=None)
    ap.add_argument('--seed', type=int, default=1)
    ap.add_argument('--missed', action='store_true')
    ap.add_argument('--no-demo', action='store_true', help='do not re-run the demonstration')
    ap.add_argument('--own', action='store_true', help="run only the change's own property check and record it under seed_runs[seed]")
    ap.add_argument('--demo-only', action='store_true', help='only re-run the demonstrations on HEAD + patch')
    a = ap.parse_args()
    ids = sorted(d for d in os.listdir(os.path.join(HERE, 'seeded')) if os.path.isdir(os.path.join(HERE, 'seeded', d)))
    if a.only:
        subs = a.only.split(',')
        ids = [i for i in ids if any(s in i for s in subs)]
    for sid in ids:
        d = os.path.join(HERE, 'seeded', sid)
        meta = json.load(open(os.path.join(d, 'meta.json')))
        ver = meta.setdefault('verification', {})
        prop = meta.get('property') or sid.split('-')[0]
        if a.missed and prop in (ver.get('caught_by') or []):
            continue
        checks = a.checks.split(',') if a.checks else sorted(set(list((ver.get('checks') or {}).keys()) + [prop]))
        if a.own:
            checks = [prop]
        scratch = '/tmp/recheck_%s' % sid
        sh('git -C /repo worktree remove --force %s/wt' % scratch)
        shutil.rmtree(scratch, ignore_errors=True)
        os.makedirs(scratch)
        rc, out = sh('git -C /repo worktree add -q %s/wt HEAD' % scratch)
        assert rc == 0, out
        try:
            rc, out = sh('git -C %s/wt apply %s' % (scratch, os.path.join(d, 'patch.diff')))
            if rc != 0:
                print('%s: patch does not apply on HEAD: %s' % (sid, out.strip()[:200]), flush=True)
                ver['patch_applies_on_head'] = False
                json.dump(meta, open(os.path.join(d, 'meta.json'), 'w'), indent=1)
                continue
            ver['patch_applies_on_head'] = True
            ver.setdefault('checks', {})
            # does the change still break the property on the current (repaired) tree?
            import re
            os.makedirs(scratch + '/pkg', exist_ok=True)
            if not os.path.exists(scratch + '/pkg/cpppo'):
                os.symlink(scratch + '/wt', scratch + '/pkg/cpppo')
            text = re.sub(r'/tmp/agent\d?_C\d\d', scratch, open(os.path.join(d, 'demo.py')).read())
            os.makedirs(scratch + '/out/m', exist_ok=True)
            open(scratch + '/out/m/demo.py', 'w').write(text)
            try:
                if a.no_demo:
                    raise KeyError('skip')
                rc_d, out_d = sh('/venv/bin/python out/m/demo.py', env={'PYTHONPATH': scratch + '/pkg'}, cwd=scratch, timeout=900)
            except subprocess.TimeoutExpired:
                rc_d, out_d = 124, 'timeout'
            except KeyError:
                rc_d, out_d = None, ''
            if rc_d is not None:
                ver['demo_on_head'] = {'exit': rc_d, 'tail': out_d[-200:], 'repo': sh('git -C /repo rev-parse --short HEAD')[1].strip()}
            if rc_d == 0:
                print('%s: demonstration PASSES on HEAD + patch: the change no longer breaks the property here' % sid, flush=True)
            if a.demo_only:
                json.dump(meta, open(os.path.join(d, 'meta.json'), 'w'), indent=1)
                continue
            for c in checks:
                cmd = './check %s --tier quick --seed %d' % (c, a.seed)
                t0 = time.time()
                rc_c, out_c = sh(cmd, env={'VERIF_REPO': scratch + '/wt', 'VERIF_SHRINK_S': '10'}, cwd=HERE)
                lines = [l for l in out_c.splitlines() if l.startswith('VIOLATION') or l.startswith('  class=')]
                target = ver['checks'] if not a.own else ver.setdefault('seed_runs', {}).setdefault(str(a.seed), {})
                target[c] = {'cmd': cmd, 'exit': rc_c, 'caught': rc_c == 1, 'wall_s': round(time.time() - t0, 1),
                                    'first': lines[1][:400] if len(lines) > 1 else None,
                                    'summary': out_c.strip().splitlines()[-1][:200] if out_c.strip() else ''}
            if a.own:
                json.dump(meta, open(os.path.join(d, 'meta.json'), 'w'), indent=1)
                print('%s seed %d: %s' % (sid, a.seed, 'caught' if ver['seed_runs'][str(a.seed)][prop]['caught'] else 'MISSED'), flush=True)
                continue
            ver['caught_by'] = [c for c, v in ver['checks'].items() if v['caught']]
            ver['rechecked_at_repo'] = sh('git -C /repo rev-parse --short HEAD')[1].strip()
            json.dump(meta, open(os.path.join(d, 'meta.json'), 'w'), indent=1)
            print('%s: caught by %s; missed by %s' % (sid, ver['caught_by'], [c for c, v in ver['checks'].items() if not v['caught']]), flush=True)
        finally:
            sh('git -C /repo worktree remove --force %s/wt' % scratch)
            shutil.rmtree(scratch, ignore_errors=True)
            sh('git checkout -- evidence', cwd=HERE)


if __name__ == '__main__':
    main()
