#!/usr/bin/env python3
"""Regenerate /verif/seeded/RESULTS.md from the meta.json files of the kept seeded changes."""
import json, os, glob
HERE = os.path.dirname(os.path.abspath(__file__))
rows = []
for d in sorted(glob.glob(os.path.join(HERE, 'seeded', '*', 'meta.json'))):
    m = json.load(open(d))
    v = m.get('verification') or {}
    sid = os.path.basename(os.path.dirname(d))
    checks = v.get('checks') or {}
    caught = [c for c, r in checks.items() if r.get('caught')]
    missed = [c for c, r in checks.items() if not r.get('caught')]
    first = ''
    for c in caught:
        first = (checks[c].get('first') or '').strip()[:160]
        break
    note = []
    doh = v.get('demo_on_head')
    if doh is not None and doh.get('exit') == 0:
        note.append('demonstration passes on /repo %s + patch: no longer a break (neutralised by a later fix)' % doh.get('repo'))
    if m.get('note'):
        note.append(m['note'])
    sr = v.get('seed_runs') or {}
    own = m.get('property')
    seeds = ['1:' + ('y' if (checks.get(own) or {}).get('caught') else 'n')] if own in checks else []
    seeds += ['%s:%s' % (k, 'y' if (r.get(own) or {}).get('caught') else 'n') for k, r in sorted(sr.items())]
    rows.append((sid, m.get('property'), (m.get('title') or m.get('what_it_breaks') or '')[:110].replace('|', '/'),
                 (m.get('needs_to_manifest') or '')[:150].replace('|', '/').replace('\n', ' '),
                 'yes' if v.get('demo_confirmed') else 'no', ', '.join(caught) or '-', ', '.join(missed) or '-', ' '.join(seeds) or '-', first.replace('|', '/'), '; '.join(note) or ''))
out = ['# Seeded changes (written by sub-agents that saw only the property text) and which checks catch them', '',
       'Each directory holds `patch.diff`, the sub-agent\'s `demo.py` and `meta.json` (incl. what was run here).',
       'A change is kept only after its demonstration was confirmed in a scratch worktree (fails with the patch,',
       'passes without).  "caught by" = `./check <id> --tier quick --seed 1` exits 1 against the patched tree.', '',
       '"own check by seed" = the own property check of the change under VERIF_SEED 1, 2, 3 (y = exits 1).', '',
       '| seeded id | property | change | needs to manifest | demo confirmed | caught by (quick, seed 1) | run but missed | own check by seed | first violation reported | note |',
       '|---|---|---|---|---|---|---|---|---|---|']
for r in rows:
    out.append('| ' + ' | '.join(str(x) for x in r) + ' |')
n = len(rows)
c = sum(1 for r in rows if r[5] != '-')
out += ['', '%d seeded changes kept, %d caught by at least one quick check.' % (n, c)]
open(os.path.join(HERE, 'seeded', 'RESULTS.md'), 'w').write('\n'.join(out) + '\n')
print('\n'.join(out[-3:]))
