#!/usr/bin/env python3
"""Compare a junit xml of the repo's suite with BASELINE.json's stable_pass list."""
import json, sys, xml.etree.ElementTree as ET
base = json.load(open('/root/.vp/BASELINE.json'))
want = set(base['stable_pass'])
t = ET.parse(sys.argv[1])
got = {}
for tc in t.iter('testcase'):
    cn = tc.get('classname', '')
    name = tc.get('name')
    cn = cn[5:] if cn.startswith('repo.') else cn
    key = '%s::%s' % (cn, name)
    bad = any(ch.tag in ('failure', 'error', 'skipped') for ch in tc)
    got[key] = not bad
missing = sorted(k for k in want if not got.get(k))
print('baseline stable_pass: %d, passing now: %d, missing: %s' % (len(want), sum(1 for k in want if got.get(k)), missing))
sys.exit(1 if missing else 0)
