"""Common machinery of the ENIP worlds: the real cpppo simulator (`enip.main.main`) on sim-threads,
reference-codec sessions as peers, the array model as oracle, in-process state peeks.
"""
import struct

from sim import install
from sim.sched import Waiter, INF
from sim.simnet import SimSocket
from ref import refcodec as rc
from ref.model import Model, STRINGS, elem_size, convert

PORT = 44818

ALL_TYPES = ['BOOL', 'SINT', 'INT', 'DINT', 'LINT', 'USINT', 'UINT', 'UDINT', 'ULINT', 'REAL', 'LREAL',
             'SSTRING', 'STRING']
FIXED_TYPES = ALL_TYPES[:11]

NAMES = ['A', 'Tag', 'SCADA', 'speed', 'Motor_1', 'x9', 'Level.PV', 'Pump.Run.Cmd', 'Q', 'odd',
         'EVENnm', 'Temp7', 'Line.Rate', 'zz_', 'Valve', 'k']

# functions in which line-level pre-emption may occur (DESIGN 2.3)
def traced_functions(m):
    device, logix, ucmm, automata, enip_main = m['device'], m['logix'], m['ucmm'], m['automata'], m['enip_main']
    A = device.Attribute
    fns = [A.__getitem__, A.__setitem__, A.produce, A._validate_key,
           logix.Logix.request, logix.Logix.reply_elements, device.Object.request,
           device.Message_Router.request, device.Message_Router.route,
           device.Connection_Manager.request, device.Connection_Manager.forward_open,
           device.Connection_Manager.forward_close, ucmm.UCMM.request,
           logix.process, logix.setup, logix.setup_tag,
           automata.dfa_post.__exit__, automata.dfa_post.post_process_closure,
           automata.dfa_base.__enter__, automata.dfa_base.__exit__,
           device.state_multiple_service.terminate,
           device.lookup, device.resolve, device.redirect_tag, device.resolve_tag,
           enip_main.stats_for, enip_main.enip_srv_tcp]
    # the element encoders: a reply is encoded element by element after the request was executed
    # (a read that handed out live storage instead of a copy is only seen if a write lands in between)
    P = m['parser']
    seen = set()
    for cls in (P.TYPE, P.BOOL, P.REAL, P.LREAL, P.SSTRING, P.STRING):
        f = cls.__dict__.get('produce')
        f = getattr(f, '__func__', f)
        if f is not None and f.__code__ not in seen:
            seen.add(f.__code__)
            fns.append(f)
    return fns


class Violation(Exception):
    pass


class EnipWorld(object):
    """One simulated deployment: server + network + model."""

    def __init__(self, tapes, params, preempt=False, count_calls=False):
        self.tapes = tapes
        self.gen = tapes.gen
        self.sch = tapes.sch
        self.params = params
        self.m = install.install()
        sch = self.sch
        policy = params.get('policy') or sch.weighted([(3, 'sticky'), (2, 'random'), (1, 'pct')], 'policy')
        pb = 0
        gap = 400
        if preempt:
            pb = sch.weighted([(2, 0), (3, 1), (3, 2), (2, 3)], 'pbudget')
            gap = sch.choice([60, 250, 1000, 4000], 'pgapmax')
        self.sched, self.net = install.new_world(
            sch, policy=policy, preempt_budget=pb, preempt_gap=gap,
            max_steps=params.get('max_steps', 150000), max_time=params.get('max_time', 3600.0))
        if policy == 'pct':
            d = sch.between(0, 3, 'pctd')
            self.sched.pct_changes = set(sch.between(1, 400, 'pctk') for _ in range(d))
        if preempt:
            # a thread releasing a shared lock is sometimes held back right after the release
            self.sched.unlock_hold = (1, 6)
        if preempt or count_calls:
            fns = traced_functions(self.m)
            focus = 'all'
            if preempt and not count_calls:
                # where the pre-emption budget goes: everywhere, the request-execution core, or one
                # single function (so that rare windows are entered on purpose, buggify-style)
                focus = sch.weighted([(2, 'all'), (2, 'core'), (4, 'one')], 'focus')
                if params.get('focus_fn') or params.get('force_one'):
                    focus = 'one'
            core = ('__getitem__', '__setitem__', 'produce', '_validate_key', 'request', 'reply_elements',
                    '__exit__', 'post_process_closure', '__enter__', 'terminate', 'closure')
            if focus == 'core':
                fns = [f for f in fns if f.__name__ in core]
                self.sched.preempt_gap = sch.choice([20, 60, 150, 400], 'pgapfocus')
            elif focus == 'one':
                cand = [f for f in fns if f.__name__ in core or f.__name__ in ('process', 'setup', 'enip_srv_tcp', 'forward_open', 'forward_close')]
                # the functions that touch tag storage or the shared deferred-closure list are where a lost
                # atomicity shows; they are chosen more often
                wt = {'__setitem__': 5, '__getitem__': 4, 'produce': 2, 'reply_elements': 2, 'post_process_closure': 2, 'closure': 2}
                wt.update(params.get('focus_weights') or {})
                weighted = []
                for f in cand:
                    weighted += [f] * wt.get(f.__qualname__, wt.get(f.__name__, 1))
                fns = [weighted[sch.draw(len(weighted), 'focusfn')]] if not params.get('focus_fn') else \
                    [f for f in fns if f.__qualname__ in params['focus_fn'].split(',')]
                self.sched.preempt_gap = sch.choice([3, 8, 25, 80], 'pgapone')
                # entering the window is the point of this mode: at least one pre-emption, and the
                # pre-empted thread is held long enough for another session's whole round trip
                self.sched.preempt_left = max(self.sched.preempt_left, 1 + sch.draw(2, 'pbone'))
                self.sched.hold_choices = (15, 60, 200, 400)
            self.focus = focus if focus != 'one' else 'one:' + fns[0].__qualname__
            for fn in fns:
                self.sched.add_traced(fn)
            # the element encoders are used for every header field as well; pre-emption is wanted where
            # they encode *tag data*: called from typed_data.produce or Attribute.produce
            P = self.m['parser']
            callers = {P.typed_data.produce.__func__.__code__, self.m['device'].Attribute.produce.__code__}
            callers |= {c for c in self.m['device'].Attribute.produce.__code__.co_consts if hasattr(c, 'co_name')}
            for cls in (P.TYPE, P.BOOL, P.REAL, P.LREAL, P.SSTRING, P.STRING):
                f = cls.__dict__.get('produce')
                f = getattr(f, '__func__', f)
                if f is not None:
                    self.sched.traced_callers[f.__code__] = callers
            # the closure inside state_multiple_service.terminate
            if focus in ('all', 'core') or fns[0].__name__ == 'terminate':
                for c in self.m['device'].state_multiple_service.terminate.__code__.co_consts:
                    if hasattr(c, 'co_name') and c.co_name == 'closure':
                        self.sched.traced_codes[c] = 'closure'
        self.sched.count_calls = count_calls
        self.focus = None
        self.violations = []
        self.harness_errors = []
        self.sessions = []
        self.threads = []
        self.samples = []
        self.notes = {}
        self.server_thread = None
        self.ctl = None
        self.budget = None
        self.model = None
        self.personality = None
        self.route = None
        self.net.conn_plan = self._conn_plan
        self.seg_mode = params.get('seg_mode')
        self.lat_mode = params.get('lat_mode')

    # ------------------------------------------------------------------ configuration
    def gen_tags(self, ntags=None, types=None, maxlen=None, shared=True, min_storages=1):
        """Swarm tag set -> Model (and the argv tag specs)."""
        g = self.gen
        budget = self.params.get('budget')
        if budget is None:
            budget = g.weighted([(3, 488), (2, g.between(3, 64, 'bsmall')), (1, g.between(65, 600, 'bmid'))], 'budget')
        self.budget = budget
        model = Model(budget=budget)
        ntags = ntags or g.weighted([(6, g.between(1, 6, 'ntags')), (1, g.between(10, 14, 'manytags'))], 'ntagsk')
        types = types or ALL_TYPES
        names = list(NAMES)
        specs = []
        addr_pool = []
        t = -1
        while True:
            t += 1
            if t >= ntags and len(model.store) >= min_storages:
                break
            name = names.pop(g.draw(len(names), 'name'))
            tname = g.choice(types, 'ttype')
            lm = maxlen or 1200
            big = lm if budget >= 100 else min(lm, 150)
            length = g.weighted([(5, g.between(2, 12, 'len')), (2, 1), (2, g.between(13, 120, 'len2')),
                                 (1, g.between(121, big, 'len3') if big > 121 else 5)], 'lenk')
            if tname in STRINGS:
                length = min(length, 20)
            length = min(length, lm)
            addr = None
            if shared and g.chance(2, 5, 'addr?'):
                if addr_pool and g.chance(1, 2, 'reuseinst'):
                    c, i = g.choice(addr_pool, 'inst')
                else:
                    # user classes, and further instances of the Message Router's own class (2): requests
                    # to those must be routed by instance, not be taken by the router @2/1 itself
                    c = g.choice([0x93, 0x401, 0x64, 0xFFF0, 2], 'cls')
                    i = g.choice([1, 2, 3, 300], 'ins')
                    if c == 2 and i == 1:
                        i = 2
                    addr_pool.append((c, i))
                a = g.choice([1, 2, 3, 4, 5, 300], 'att')
                addr = (c, i, a)
                if addr in model.addr:
                    # second name on the same attribute: must agree in type and size
                    sid = model.addr[addr]
                    tname, length = model.stype[sid], len(model.store[sid])
            model.add_tag(name, tname, length, addr)
            nm = name + ('@%d/%d/%d' % addr if addr else '')
            specs.append('%s=%s[%d]' % (nm, tname, length) if not (length == 1 and g.chance(1, 2, 'bare'))
                         else '%s=%s' % (nm, tname))
        self.model = model
        self.tag_specs = specs
        return model

    def _conn_plan(self, idx, c2s, s2c, peer):
        """Per-connection network behaviour for the server->client direction (the reference
        sessions cut their own sends).  Drawn from the schedule tape."""
        sch = self.sch
        mode = self.seg_mode or sch.weighted([(4, 'asis'), (1, 'bytes'), (2, 'split'), (1, 'coalesce')], 'segmode')
        if mode == 'bytes':
            s2c.cutter = lambda n: range(1, n)
        elif mode == 'split':
            def cutter(n, sch=sch):
                k = sch.draw(4, 'ncut')
                return sorted(set(1 + sch.draw(max(1, n - 1), 'cut') for _ in range(k))) if n > 1 else ()
            s2c.cutter = cutter
        elif mode == 'coalesce':
            s2c.coalesce = True
        lat = self.lat_mode or sch.weighted([(4, 'zero'), (2, 'small'), (1, 'wide')], 'latmode')
        if lat == 'small':
            f = lambda sch=sch: sch.draw(20, 'lat') / 1000.0
            s2c.latency = f
            c2s.latency = f
        elif lat == 'wide':
            f = lambda sch=sch: (sch.draw(10, 'lat') ** 3) / 1000.0
            s2c.latency = f
            c2s.latency = f
        if self.params.get('short_reads', True) and sch.chance(1, 4, 'short?'):
            c2s.short_read = lambda k, sch=sch: 1 + sch.draw(k, 'short')

    # ------------------------------------------------------------------ server
    def start_server(self, extra_argv=(), UCMM_class=None, latency=None, timeout=None):
        m = self.m
        dotdict = m['dotdict'].dotdict
        if self.budget is not None:
            m['logix'].Logix.MAX_BYTES = self.budget
        lat = latency if latency is not None else self.sch.choice([0.1, 0.02, 0.5], 'srvlat')
        self.ctl = dotdict()
        self.ctl.control = dotdict(done=False, disable=False, latency=lat,
                                   timeout=timeout if timeout is not None else 2 * lat)
        import os
        argv = ['--no-config', '-U', '--address', '127.0.0.1:%d' % PORT] + list(extra_argv) + list(self.tag_specs)
        if os.environ.get('VERIF_LOG'):
            argv = ['-' + 'v' * int(os.environ['VERIF_LOG'])] + argv
        self.argv = argv
        self.server_result = {}

        def srv():
            kw = dict(argv=argv, server=self.ctl)
            if UCMM_class is not None:
                kw['UCMM_class'] = UCMM_class
            try:
                self.server_result['rc'] = m['enip_main'].main(**kw)
            except BaseException as exc:
                self.server_result['exc'] = '%s: %s' % (type(exc).__name__, exc)
                raise
        self.server_thread = self.sched.spawn(srv, name='server', trace=True)
        return self.server_thread

    def bind_auto_tags(self):
        """After the simulator's lazy setup: learn where auto-placed tags were put (harness privilege:
        reads device.symbol), so the model can address them numerically as well."""
        sym = self.m['device'].symbol
        for key, t in self.model.tags.items():
            if t.addr is None:
                a = sym.get(key)
                if a:
                    self.model.bind_auto(t.name, (a['class'], a['instance'], a['attribute']))
        # configured tags are distinct arrays: two names share an attribute only where the configuration says so
        seen = {}
        for key, t in sorted(self.model.tags.items()):
            if t.addr is not None:
                o = seen.setdefault(t.addr, t)
                if o.sid != t.sid and not getattr(self, '_collision_reported', False):
                    self._collision_reported = True
                    self.violation('tag-address-collision', 'tags %r and %r were both placed at @%d/%d/%d by the simulator' % (
                        (o.name, t.name) + tuple(t.addr)))

    def peek(self):
        """{sid: list of values} read directly from the running simulator's Attribute objects."""
        out = {}
        lookup = self.m['device'].lookup
        for addr, sid in self.model.addr.items():
            att = lookup(*addr)
            if att is None:
                out[sid] = None
                continue
            v = att.value
            out[sid] = [v] if att.scalar else list(v)
        return out

    def poke(self, snap):
        """Restore tag contents (harness privilege; used by twin executions)."""
        lookup = self.m['device'].lookup
        done = set()
        for addr, sid in self.model.addr.items():
            if sid in done:
                continue
            done.add(sid)
            att = lookup(*addr)
            vals = snap[sid]
            if att.scalar:
                att.default = type(att.default)(vals[0])
            else:
                att.default[:] = list(vals)

    def state_diff(self, skip=()):
        """Differences between the simulator's state and the model: list of (sid, index, got, want)
        (at most 4 per storage)."""
        got = self.peek()
        out = []
        for sid, want in self.model.store.items():
            if sid not in got or sid in skip:
                continue        # auto tag not yet bound
            g = got[sid]
            tname = self.model.stype[sid]
            if g is None or len(g) != len(want):
                out.append((sid, -1, None if g is None else len(g), len(want)))
                continue
            n = 0
            for i, (a, b) in enumerate(zip(g, want)):
                if not same_value(tname, a, b):
                    out.append((sid, i, a, b))
                    n += 1
                    if n >= 4:
                        break
        return out

    # ------------------------------------------------------------------ running
    def violation(self, cls, msg, **key):
        v = dict(cls=cls, msg=str(msg)[:3000], key=key, at=self.sched.seq)
        self.violations.append(v)
        self.sched.log('VIOLATION', cls)
        return v

    def spawn(self, fn, name, trace=False):
        def guarded():
            try:
                fn()
            except Violation:
                pass
            except Exception:
                import traceback
                self.harness_errors.append('%s: %s' % (name, traceback.format_exc()[-2500:]))
        th = self.sched.spawn(guarded, name=name, trace=trace)
        self.threads.append(th)
        return th

    def run(self, stop_when=None):
        s = self.sched
        if stop_when is None:
            stop_when = lambda: all(t._sim_state == 'done' for t in self.threads)
        s.stop_when = stop_when
        s.run(wall_timeout=110)
        if not s.finished.is_set():
            try:
                where = repr([(t['name'], t['state'], t.get('wait'), (t.get('stack') or [])[-6:]) for t in s.describe_threads()
                              if t['state'] != 'done'])[:3000]
            except Exception as exc:        # noqa: BLE001
                where = 'no stacks: %r' % (exc,)
            self.violations.append(dict(cls='harness-wall', msg='wall timeout; threads: ' + where, key={}))
        if s.failure:
            kind, detail = s.failure
            self.violation('liveness-' + kind.lower(), '%s: %s' % (kind, detail))
        return self.result()

    def result(self):
        s = self.sched
        faults = dict(self.net.faults_fired)
        # scheduling faults, counted where they actually happened
        if s.stalls:
            faults['THREAD_STALL'] = s.stalls
        if s.preempts:
            faults['PREEMPTION'] = s.preempts
        if s.probes.get('unlock_hold'):
            faults['UNLOCK_HOLD'] = s.probes['unlock_hold']
        res = dict(
            violations=self.violations, digest=s.digest(), steps=s.steps, switches=s.switches,
            vtime=round(s.now - s.start_time, 6), nevents=s.nevents, faults=faults,
            probes=s.probes, preempts=s.preempts, sig=s.sched_sig.hexdigest()[:16],
            uncaught=s.uncaught, policy=s.policy, notes=self.notes,
        )
        if self.harness_errors:
            res['error'] = 'HARNESS: ' + ' | '.join(self.harness_errors)[:4000]
        if self.samples:
            res['sample'] = self.samples[:40]
        import os
        if self.violations or os.environ.get('VERIF_EVENTS'):
            res['events'] = [list(e) for e in s.events[-int(os.environ.get('VERIF_EVENTS') or 200):]]
        return res


def same_value(tname, a, b):
    if tname == 'BOOL':
        return bool(a) == bool(b)
    if tname in ('REAL', 'LREAL'):
        try:
            if tname == 'REAL':
                return struct.pack('<f', a) == struct.pack('<f', b)
            return struct.pack('<d', a) == struct.pack('<d', b)
        except (struct.error, OverflowError, TypeError):
            return False
    if tname in STRINGS:
        return a == b
    try:
        return int(a) == int(b) and not isinstance(a, float)
    except (TypeError, ValueError):
        return False


# ---------------------------------------------------------------------------- reference session
class RefSession(object):
    """A byte-level EtherNet/IP peer built on the reference codec, running on a sim-thread."""

    def __init__(self, world, name, chunk_mode=None):
        self.w = world
        self.name = name
        self.sock = SimSocket(world.net)
        self.buf = b''
        self.session = 0
        self.eof = False
        self.rst = False
        self.nctx = 0
        self.sent_frames = []       # (seq at last byte sent, raw)
        self.recv_frames = []       # (seq at receipt, Frame)
        self.chunk_mode = chunk_mode
        self.conn_id = None
        self.seq_count = 0
        world.sessions.append(self)

    def connect(self):
        s = self.w.sched
        w = self.w
        s.block(Waiter(cond=lambda: PORT in w.net.listeners or (w.server_thread is not None and w.server_thread._sim_state == 'done'),
                       why='await-listen'))
        if PORT not in w.net.listeners:
            w.violation('server-start-failed', 'the simulator main() ended before listening: %r (argv %r)' % (
                w.server_result, [a for a in w.argv if not a[:1].isalpha() or '=' not in a][:8]),
                argv=' '.join(a for a in w.argv[4:8] if '=' not in a))
            raise Violation()
        self.sock.connect(('127.0.0.1', PORT))
        self.index = self.sock.conn_index

    # -- sending
    def chunks(self, data):
        """Cut data as this session's chunk mode says (drawn from the schedule tape)."""
        sch = self.w.sch
        mode = self.chunk_mode
        if mode is None:
            mode = sch.weighted([(4, 'whole'), (1, 'bytes'), (2, 'split'), (2, 'header')], 'chunk')
        n = len(data)
        if mode == 'whole' or n < 2:
            return [data]
        if mode == 'bytes':
            if n <= 400:
                return [data[i:i + 1] for i in range(n)]
            # a long frame byte by byte costs thousands of scheduler steps and shows nothing a shorter one
            # does not: the first 64 and the last 16 bytes singly, the middle in one piece
            return [data[i:i + 1] for i in range(64)] + [data[64:n - 16]] + [data[i:i + 1] for i in range(n - 16, n)]
        if mode == 'header':
            cuts = sorted(set([1 + sch.draw(min(n - 1, 23), 'hcut'), min(n - 1, 2 + sch.draw(3, 'lcut'))]))
        else:
            k = 1 + sch.draw(4, 'ncut')
            cuts = sorted(set(1 + sch.draw(n - 1, 'cut') for _ in range(k)))
        out = []
        prev = 0
        for c in cuts:
            out.append(data[prev:c])
            prev = c
        out.append(data[prev:])
        return [c for c in out if c]

    def send(self, data, chunks=None):
        cs = chunks if chunks is not None else self.chunks(data)
        if len(cs) > 1:
            self.w.net.fired('CLIENT_CHUNKED', len(cs) - 1)
        for c in cs:
            self.sock.send(c)

    def send_frame(self, raw, chunks=None):
        self.send(raw, chunks)
        self.sent_frames.append((self.w.sched.seq, raw))

    def context(self):
        """Unique 8-byte sender context."""
        self.nctx += 1
        return struct.pack('<HHI', 0xC0DE, self.index & 0xFFFF, self.nctx)

    # -- receiving
    def recv_frame(self, timeout=30.0):
        """Next complete frame, or None at EOF/RST/timeout (sets .eof/.rst/.timed_out)."""
        self.timed_out = False
        while True:
            frames, rest = rc.split_frames(self.buf)
            if frames:
                f = frames[0]
                self.buf = self.buf[len(f.raw):]
                self.recv_frames.append((self.w.sched.seq, f))
                return f
            self.sock.settimeout(timeout)
            try:
                b = self.sock.recv(4096)
            except OSError as exc:
                if isinstance(exc, (TimeoutError,)) or 'timed out' in str(exc):
                    self.timed_out = True
                    return None
                self.rst = True
                return None
            if b == b'':
                self.eof = True
                return None
            self.buf += b

    def close(self):
        self.sock.close()

    # -- protocol helpers
    def register(self):
        ctx = self.context()
        self.send_frame(rc.register(ctx))
        f = self.recv_frame()
        if f is None:
            self.w.violation('no-register-reply', 'no reply to Register Session on %s' % self.name)
            raise Violation()
        if f.command != rc.REGISTER or f.status != 0 or f.session == 0 or f.context != ctx:
            self.w.violation('bad-register-reply', 'Register reply %r' % f)
            raise Violation()
        self.session = f.session
        return f

    def wrap(self, cip, route='none'):
        """route: 'bare' (no Unconnected Send wrapper), 'none' (wrapper, empty route path) or a list
        of ('port',p,l) segments."""
        if route == 'bare':
            return cip
        return rc.unconnected_send(cip, [] if route == 'none' else route)

    def rr(self, cip, route='none', chunks=None):
        """Send one SendRRData request and return (Frame, cip reply bytes or None)."""
        ctx = self.context()
        self.send_frame(rc.send_rr(self.session, self.wrap(cip, route), ctx), chunks)
        f = self.recv_frame()
        if f is None:
            return None, None
        return f, self.rr_payload(f, ctx)

    def rr_payload(self, f, ctx):
        w = self.w
        if f.context != ctx or f.session != self.session or f.command != rc.SEND_RR:
            w.violation('reply-envelope', '%s: reply %r does not echo command/session/context (want ctx %s)' % (
                self.name, f, ctx.hex()))
            raise Violation()
        if f.status != 0:
            return None
        try:
            items = rc.dec_send_data(f)
            rc.need(len(items) == 2 and items[0] == (0x0000, b'') and items[1][0] == 0x00B2,
                    'SendRRData reply must carry a null address item and one unconnected data item: %r' % (
                        [(t, len(d)) for t, d in items],))
        except rc.DecodeError as exc:
            w.violation('reply-undecodable', '%s: %s' % (self.name, exc))
            raise Violation()
        return items[1][1]

    # -- connected sessions
    def forward_open(self, large=False, path=None, size=500):
        self.conn_serial = 0x100 + self.index
        self.o_t = 0x20000000 + self.index * 16 + 2
        cip = rc.req_forward_open(self.conn_serial, o_t_id=self.o_t, t_o_id=self.o_t - 1, large=large, size=size,
                                  **({'path': path} if path else {}))
        f, rep = self.rr(cip, route='bare')
        if rep is None:
            return None
        r = rc.dec_reply(rep)
        if r.status != 0:
            return r
        info = rc.dec_forward_open_reply(r.payload)
        self.conn_id = info['o_t']
        self.fo_info = info
        # the 16-bit sequence count of the connected requests starts anywhere (a long-lived originator;
        # pylogix keeps its counter across reconnects) and wraps
        g = self.w.gen
        self.seq_count = g.choice([0, 0, 0x7FFD, 0xFFFC, 0x8000 + g.draw(0x7FFF, 'seq0')], 'seqk')
        return r

    def unit(self, cip, chunks=None):
        ctx = self.context()
        self.seq_count = (self.seq_count + 1) & 0xFFFF
        sq = self.seq_count
        self.send_frame(rc.send_unit(self.session, self.conn_id, sq, cip, ctx), chunks)
        f = self.recv_frame()
        if f is None:
            return None, None
        w = self.w
        if f.command != rc.SEND_UNIT or f.session != self.session:
            w.violation('reply-envelope', '%s: connected reply %r' % (self.name, f))
            raise Violation()
        if f.status != 0:
            return f, None
        try:
            items = rc.dec_send_data(f)
            rc.need(len(items) == 2 and items[0][0] == 0x00A1 and items[1][0] == 0x00B1, 'connected reply items')
            rc.need(len(items[0][1]) == 4, 'connection id item length')
            rc.need(len(items[1][1]) >= 2, 'sequence count missing')
            got_sq = struct.unpack_from('<H', items[1][1], 0)[0]
            rc.need(got_sq == sq, 'sequence count %d != %d' % (got_sq, sq))
        except rc.DecodeError as exc:
            w.violation('reply-undecodable', '%s: %s' % (self.name, exc))
            raise Violation()
        return f, items[1][1][2:]


# ---------------------------------------------------------------------------- ops <-> bytes
def op_path(op, case_tape=None):
    ref = op['ref']
    if ref[0] == 'name':
        return rc.tag_path(name=op.get('spelling', ref[1]), element=op.get('index'))
    return rc.tag_path(addr=ref[1], element=op.get('index'))


def op_request(op):
    """CIP request bytes for a structured op."""
    k = op['kind']
    p = op_path(op)
    if k == 'read':
        return rc.req_read_tag(p, op['elements'])
    if k == 'readfrag':
        return rc.req_read_frag(p, op['elements'], op.get('offset', 0))
    if k == 'write':
        return rc.req_write_tag(p, op['tname'], op['values'], op['elements'])
    if k == 'writefrag':
        return rc.req_write_frag(p, op['tname'], op['values'], op['elements'], op.get('offset', 0))
    if k == 'gas':
        return rc.req_get_attr_single(p)
    if k == 'sas':
        return rc.req_set_attr_single(p, op['data'])
    raise ValueError(k)


SERVICE = {'read': rc.READ_TAG, 'readfrag': rc.READ_FRAG, 'write': rc.WRITE_TAG, 'writefrag': rc.WRITE_FRAG,
           'gas': rc.GA_SINGLE, 'sas': rc.SA_SINGLE}


def expected_payload(exp):
    """Exact reply payload bytes the model predicts (after the status words)."""
    if exp.values is None:
        return b''
    return rc.enc_elems(exp.tname, exp.values)


def check_reply(op, exp, rep_bytes):
    """None if the reply bytes are what the model expects, else a description."""
    try:
        r = rc.dec_reply(rep_bytes)
    except rc.DecodeError as exc:
        return 'undecodable reply: %s' % exc
    want_svc = SERVICE[op['kind']] | 0x80
    if r.service != want_svc:
        return 'reply service 0x%02x, want 0x%02x' % (r.service, want_svc)
    if exp.any_error:
        if r.status == 0 or r.status == 6:
            return 'request acknowledged (status 0x%02x); the model refuses it' % r.status
        return None
    if r.status != exp.status or tuple(r.ext) != tuple(exp.ext):
        return 'status 0x%02x ext %s, want 0x%02x ext %s' % (r.status, [hex(x) for x in r.ext],
                                                             exp.status, [hex(x) for x in exp.ext])
    if exp.status not in (0, 6):
        if r.payload:
            return 'error reply carries %d payload bytes' % len(r.payload)
        return None
    k = op['kind']
    if k in ('read', 'readfrag'):
        want = struct.pack('<H', rc.TYPE_CODE[exp.tname]) + expected_payload(exp)
        if r.payload != want:
            try:
                tn, vals, _ = rc.dec_typed(r.payload)
                got = '%s %r' % (tn, vals[:16])
            except rc.DecodeError as exc:
                got = 'undecodable (%s) %s' % (exc, r.payload[:40].hex())
            return 'read data %s, want %s %r' % (got, exp.tname, exp.values[:16])
        return None
    if k == 'gas':
        want = expected_payload(exp)
        if r.payload != want:
            return 'attribute bytes %s, want %s' % (r.payload[:48].hex(), want[:48].hex())
        return None
    if r.payload:
        return 'write reply carries %d payload bytes' % len(r.payload)
    return None


# ---------------------------------------------------------------------------- op generation
def gen_value(g, tname, unique):
    """A value of type tname; `unique` is a counter dict making every written value distinct where
    the type is wide enough."""
    unique['n'] += 1
    n = unique['n']
    if tname == 'BOOL':
        return bool(g.draw(2, 'b'))
    if tname in STRINGS:
        base = 'v%d' % n
        k = g.weighted([(4, 0), (2, 1), (1, 7), (1, 30)], 'slen')
        return base + ''.join(chr(g.choice([0x41, 0x7a, 0x20, 0xe9, 0x30], 'ch')) for _ in range(k))
    if tname in ('REAL', 'LREAL'):
        k = g.draw(6, 'fk')
        if k == 0:
            return float(n)
        if k == 1:
            return -float(n) - 0.5
        if k == 2:
            return n * 1e-3
        if k == 3:
            return (n % 97) * (1e30 if tname == 'REAL' else 1e300)
        if k == 4:
            return 0.0
        return n + 0.25
    lo, hi = rc.INT_RANGE[tname]
    k = g.draw(8, 'ik')
    if hi - lo < 1000:
        return lo + (n * 7 + g.draw(3, 'j')) % (hi - lo + 1)
    if k == 0:
        return hi - (n % 50)
    if k == 1:
        return lo + (n % 50)
    if k == 2 and lo < 0:
        return -n
    return n % (hi + 1)


def pick_ref(g, model, tag, allow_addr=True):
    """How to address the tag: by name (random case / alias) or by numeric address."""
    if allow_addr and tag.addr is not None and g.chance(1, 3, 'byaddr'):
        c, i, a = tag.addr
        if a == 1 and g.chance(1, 2, 'noatt'):
            return ('addr', (c, i, None)), None
        return ('addr', (c, i, a)), None
    name = tag.name
    k = g.draw(4, 'case')
    sp = name if k == 0 else name.upper() if k == 1 else name.lower() if k == 2 else name.swapcase()
    return ('name', name), sp


def gen_fit(g, src, tname, unique, fit):
    """A value of the declared data type src (exactly encodable in it).  fit: also representable in
    the tag's own type tname."""
    from ref.model import representable
    v = convert(src, gen_value(g, src, unique))
    if not fit and src != tname and src in rc.INT_RANGE and tname in rc.INT_RANGE and g.chance(1, 2, 'edgeval'):
        # the edges of the *tag's* range as seen from the declared type: hi, hi+1, lo, lo-1
        lo, hi = rc.INT_RANGE[tname]
        slo, shi = rc.INT_RANGE[src]
        cands = [x for x in (hi, hi + 1, lo, lo - 1, hi - 1, hi + 2) if slo <= x <= shi]
        if cands:
            return g.choice(cands, 'edgepick')
    if fit and src != tname and src not in STRINGS and tname not in STRINGS and not representable(tname, v):
        if src in rc.INT_RANGE and tname in rc.INT_RANGE:
            lo = max(rc.INT_RANGE[src][0], rc.INT_RANGE[tname][0])
            hi = min(rc.INT_RANGE[src][1], rc.INT_RANGE[tname][1])
            v = lo + (unique['n'] * 3) % (hi - lo + 1)
        else:
            v = convert(src, 1)
    return v


def gen_op(g, model, unique, kinds=None, boundary=0, cross=0, allow_addr=True, tag=None, fit=True):
    """One structured op.  boundary: weight (0..10) of out-of-range/edge requests; cross: weight of
    cross-type writes."""
    tags = sorted(model.tags.values(), key=lambda t: t.name)
    if tag is None:
        tag = g.choice(tags, 'tag')
    tname, L = tag.tname, tag.length
    kinds = kinds or ['read', 'readfrag', 'write', 'writefrag', 'gas', 'sas']
    kind = g.choice(kinds, 'kind')
    if kind in ('gas', 'sas') and tag.addr is None:
        kind = 'read' if kind == 'gas' else 'write'
    if kind in ('readfrag', 'writefrag') and tname in STRINGS:
        kind = kind[:-4]
    op = {'kind': kind}
    if kind in ('gas', 'sas'):
        op['ref'] = ('addr', tag.addr)
        if kind == 'sas':
            vals = [gen_value(g, tname, unique) for _ in range(L)] if tname not in STRINGS else []
            data = rc.enc_elems(tname, vals) if tname not in STRINGS else b'\x01a'
            if boundary and g.chance(boundary, 20, 'sasb'):
                data = data[:-1] if g.draw(2, 'sl') and len(data) > 1 else data + b'\x00'
            op['data'] = data
        return op
    ref, sp = pick_ref(g, model, tag, allow_addr)
    op['ref'] = ref
    if sp is not None:
        op['spelling'] = sp
    s = elem_size(tname)
    edge = boundary and g.chance(boundary, 10, 'edge')
    if edge:
        idx = g.choice([L - 1, L, L + 1, 0, max(0, L - 2)], 'eidx')
        n = g.choice([0, 1, 2, L, L + 1, max(1, L - idx), max(1, L - idx + 1)], 'ecnt')
    else:
        idx = g.draw(L, 'idx')
        n = 1 + g.draw(L - idx, 'cnt')
        if g.chance(1, 4, 'full'):
            idx, n = 0, L
    if idx == 0 and g.chance(1, 2, 'noelem'):
        op['index'] = None
    else:
        op['index'] = idx
    op['elements'] = n
    if kind == 'readfrag':
        per = max((model.budget + s - 1) // s, 1)
        k = g.draw(4, 'offk')
        if k == 0 or n <= 0:
            off = 0
        else:
            off = s * min(max(n - 1, 0), per * g.draw(3, 'offm') + g.draw(per, 'offr'))
        if edge and g.chance(1, 2, 'eoff'):
            off = g.choice([s * n, s * (n + 1), off + 1 if s > 1 else s * n, s * max(n - 1, 0)], 'eoffv')
        op['offset'] = off
        return op
    if kind == 'read':
        return op
    # writes
    dt = tname
    if cross and g.chance(cross, 10, 'cross'):
        dt = g.choice(ALL_TYPES, 'dtype')
        if tname in rc.INT_RANGE and g.chance(1, 2, 'related'):
            # the declared types whose range straddles the tag's: same width with the other sign, and
            # the next wider ones -- where an off-by-one in a range check shows
            order = ['SINT', 'INT', 'DINT', 'LINT']
            uorder = ['USINT', 'UINT', 'UDINT', 'ULINT']
            k = order.index(tname) if tname in order else uorder.index(tname) if tname in uorder else None
            if k is not None:
                rel = [uorder[k] if tname in order else order[k]]
                if k + 1 < 4:
                    rel += [order[k + 1], uorder[k + 1]]
                dt = g.choice(rel, 'reltype')
    op['tname'] = dt
    src = dt
    if kind == 'write':
        m = max(n, 0)
        if edge and g.chance(1, 3, 'wshort'):
            m = n - 1
        m = max(m, 1)           # a write without any data is malformed, not merely out of range
        op['values'] = [gen_fit(g, src, tname, unique, fit) for _ in range(min(m, 1300))]
        return op
    # writefrag: a piece of the transfer [idx, idx+n)
    if n <= 0:
        op['offset'] = 0
        op['values'] = [gen_fit(g, src, tname, unique, fit)]
        return op
    start = g.draw(n, 'wfs')
    cnt = 1 + g.draw(n - start, 'wfc')
    op['offset'] = start * s
    if edge and g.chance(1, 3, 'wfe'):
        cnt = n - start + 1
    op['values'] = [gen_fit(g, src, tname, unique, fit) for _ in range(min(cnt, 1300))]
    return op


def short(op):
    """Compact description of an op for samples / messages."""
    d = dict(op)
    if 'values' in d and len(d['values']) > 8:
        d['values'] = d['values'][:8] + ['...%d' % len(op['values'])]
    if 'data' in d:
        d['data'] = d['data'].hex()[:32]
    return d


def expected_reply_bytes(op, exp):
    """The exact CIP reply bytes the model predicts (only for exact expectations)."""
    assert not exp.any_error and not exp.unknown
    out = struct.pack('<BBBB', SERVICE[op['kind']] | 0x80, 0, exp.status, len(exp.ext))
    for x in exp.ext:
        out += struct.pack('<H', x)
    if exp.status in (0, 6):
        if op['kind'] in ('read', 'readfrag'):
            out += struct.pack('<H', rc.TYPE_CODE[exp.tname]) + expected_payload(exp)
        elif op['kind'] == 'gas':
            out += expected_payload(exp)
    return out
