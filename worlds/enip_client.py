"""ENIP-client worlds: the real cpppo client (connector / proxy / poll) as a node on sim-threads.

  c12  client results do not depend on pipelining depth or request bundling
  c13  under any connection fault the client never pairs a reply with the wrong request
"""
import struct

from sim.runner import world
from sim.sched import Waiter
from sim import simnet
from ref import refcodec as rc
from ref.model import STRINGS, Expected
from .enip_base import (EnipWorld, RefSession, Violation, gen_op, op_request, short, PORT, expected_reply_bytes)
from .enip_proto import member_expect


# ---------------------------------------------------------------------------- rendering ops as text
def fmt_value(tname, v):
    if tname in STRINGS:
        return '"%s"' % v
    if tname == 'BOOL':
        return 'true' if v else 'false'
    if tname in ('REAL', 'LREAL'):
        return repr(float(v))
    return str(int(v))


def render(g, op):
    """The textual operation the structured op spells (None if it cannot be spelled)."""
    k = op['kind']
    ref = op['ref']
    if ref[0] == 'name':
        base = op.get('spelling', ref[1])
    else:
        c, i, a = ref[1]
        fm = g.draw(3, 'numfmt')
        parts = [('0x%X' % c) if fm == 0 else str(c) if fm == 1 else ('0x%04x' % c), str(i)]
        if a is not None:
            parts.append(str(a) if fm != 2 else '0x%x' % a)
        base = '@' + '/'.join(parts)
    if k in ('gas', 'sas'):
        if k == 'gas':
            return base
        return base + '=(USINT)' + ','.join(str(b) for b in op['data'])
    idx, n = op.get('index'), op['elements']
    if n <= 0:
        return None
    if k == 'writefrag':
        # the textual grammar's own consistency rules for fragmented writes
        if op['tname'] in STRINGS:
            return None
        size = rc.tsize(op['tname'])
        off = op.get('offset', 0)
        if off % size or off // size + len(op['values']) > n:
            return None
    if idx is None:
        txt = base if (n == 1 and k != 'writefrag') else '%s*%d' % (base, n)
    elif n == 1 and k != 'writefrag' and g.draw(2, 'single'):
        txt = '%s[%d]' % (base, idx)
    elif g.draw(3, 'star') == 0:
        txt = '%s[%d]*%d' % (base, idx, n)
    else:
        txt = '%s[%d-%d]' % (base, idx, idx + n - 1)
    if k in ('readfrag', 'writefrag'):
        txt += ' + %d' % op.get('offset', 0) if g.draw(2, 'sp') else '+%d' % op.get('offset', 0)
    if k in ('write', 'writefrag'):
        if k == 'write' and len(op['values']) != n:
            return None
        if k == 'writefrag' and (idx is None and n != 1 and False):
            return None
        vals = ', '.join(fmt_value(op['tname'], v) for v in op['values']) if g.draw(2, 'vsp') else \
            ','.join(fmt_value(op['tname'], v) for v in op['values'])
        txt += ' = (%s)%s' % (op['tname'], vals) if g.draw(2, 'esp') else '=(%s)%s' % (op['tname'], vals)
    return txt


def result_matches(op, exp, sts, val):
    """Compare one client result (status, value) with the model's expectation."""
    if isinstance(sts, tuple):
        st, ext = sts[0], tuple(sts[1])
    else:
        st, ext = sts, ()
    if exp.any_error:
        return None if (st not in (0, 6) and not val) else 'status %r value %r for a request the model refuses' % (sts, val)
    if st != exp.status or (exp.status not in (0, 6) and tuple(ext) != tuple(exp.ext)):
        return 'status %r, model 0x%02x %r' % (sts, exp.status, list(exp.ext))
    if exp.status not in (0, 6):
        return None if not val else 'truthy value %r with error status' % (val,)
    k = op['kind']
    if k in ('write', 'writefrag', 'sas'):
        return None if val else 'falsy value %r for an acknowledged write' % (val,)
    if k == 'gas':
        want = list(rc.enc_elems(exp.tname, exp.values))
        return None if list(val or []) == want else 'attribute bytes %r, model %r' % (list(val or [])[:12], want[:12])
    try:
        got = rc.enc_elems(exp.tname, list(val))
    except Exception as exc:        # noqa: BLE001
        return 'values %r not encodable as %s (%s)' % (val, exp.tname, exc)
    if got != rc.enc_elems(exp.tname, exp.values):
        return 'values %r, model %r' % (list(val)[:10], exp.values[:10])
    return None


ROUTES = [None, '1/1', '2/1.2.3.4', [{'port': 3, 'link': 7}]]


def route_segments(rp):
    """The wire route path (refcodec segments) a client-side route_path value denotes."""
    if rp is None:
        return [('port', 1, 0)]
    if isinstance(rp, str):
        out = []
        parts = rp.split('/')
        for i in range(0, len(parts), 2):
            l = parts[i + 1]
            out.append(('port', int(parts[i]), int(l) if l.isdigit() else l))
        return out
    return [('port', d['port'], d['link']) for d in rp]


@world('c12')
def c12(tapes, params):
    w = EnipWorld(tapes, params)
    g, sch = w.gen, w.sch
    m = w.m
    client = m['client']
    params.setdefault('budget', 488)
    w.lat_mode = sch.choice(['zero', 'small', 'small'], 'latm')
    w.gen_tags(ntags=g.between(1, 4, 'ntags'), maxlen=params.get('maxlen', 40))
    w.start_server()
    unique = {'n': 0}
    nops = g.between(3, params.get('max_ops', 30), 'nops')
    grid = []
    for _ in range(g.between(2, 4, 'ncfg')):
        depth = g.choice([0, 1, 2, 5, 17], 'depth')
        multiple = g.choice([0, 0, 100, 250, 500, 4000], 'multiple')
        fragment = bool(g.draw(2, 'fragment'))
        cfg = (depth, multiple, fragment)
        if cfg not in grid:
            grid.append(cfg)
    stats = {'configs': len(grid), 'ops': 0, 'refused': 0, 'bundles_seen': 0, 'compared': 0}
    w.notes['grid'] = grid

    def driver():
        boot = RefSession(w, 'boot', chunk_mode='whole')
        boot.connect()
        boot.register()
        w.bind_auto_tags()
        boot.close()
        # ---- the operation list: structured ops, their text, their routes
        ops, texts, routes = [], [], []
        tries = 0
        while len(ops) < nops and tries < nops * 4:
            tries += 1
            if g.chance(1, 9, 'gaa?'):
                # Get Attributes All of the Identity / TCP-IP object: never bundled by the client, so it
                # must keep its place among operations that are
                c, i = g.choice([(1, 1), (0xF5, 1)], 'gaaobj')
                ops.append({'kind': 'gaa', 'ref': ('addr', (c, i, None))})
                texts.append('@%d/%d' % (c, i) if g.draw(2, 'gaafmt') else '@0x%X/%d' % (c, i))
                routes.append(None)
                continue
            op = gen_op(g, w.model, unique, boundary=2, cross=2, fit=True)
            if op['kind'] == 'sas' and len(op['data']) > 64:
                continue
            txt = render(g, op)
            if txt is None:
                continue
            ops.append(op)
            texts.append(txt)
            routes.append(g.choice(ROUTES, 'route') if g.chance(1, 3, 'rt?') else None)
        stats['ops'] = len(ops)
        w.samples.append({'operations': texts[:12], 'grid': grid})
        s0_model = w.model.snapshot()
        s0_real = w.peek()
        outcomes = []
        for (depth, multiple, fragment) in grid:
            w.poke(s0_real)
            w.model.restore(s0_model)
            # parse the text with the real parser; attribute services through attribute_operations
            parsed = []
            for op, txt, rp in zip(ops, texts, routes):
                kw = {} if rp is None else {'route_path': rp}
                try:
                    if op['kind'] in ('gas', 'sas', 'gaa'):
                        po = list(m['get_attribute'].attribute_operations([txt], **kw))
                    else:
                        po = list(client.parse_operations([txt], **kw))
                except Exception as exc:        # noqa: BLE001
                    w.violation('c12-unparsable-operation', 'operation text %r was refused by the parser: %s' % (txt, exc), op=op['kind'])
                    raise Violation()
                parsed += po
            exps = [member_expect(w.model, op) if op['kind'] != 'gaa' else None for op in ops]
            stats['refused'] += sum(1 for e in exps if e is not None and not e.ok())
            results = []
            try:
                conn = client.connector(host='127.0.0.1', port=PORT, timeout=8.0)
                tapidx = len(w.net.conns) - 1
                with conn:
                    for res in conn.operate(parsed, depth=depth, multiple=multiple, fragment=fragment, timeout=8.0):
                        results.append(res)
                conn.close()
            except Exception as exc:        # noqa: BLE001
                w.violation('c12-client-raised', 'depth=%d multiple=%d fragment=%s: client raised %s: %s after %d of %d results; operations %r' % (
                    depth, multiple, fragment, type(exc).__name__, str(exc)[:300], len(results), len(ops), texts[:8]),
                    depth=depth, multiple=multiple)
                raise Violation()
            if len(results) != len(ops):
                w.violation('c12-result-count', 'depth=%d multiple=%d fragment=%s: %d results for %d operations' % (
                    depth, multiple, fragment, len(results), len(ops)), depth=depth, multiple=multiple)
                raise Violation()
            vec = []
            for i, (op, exp, res) in enumerate(zip(ops, exps, results)):
                idx, dsc, req, rpy, sts, val = res
                # with fragment=True plain reads/writes go out as the fragmented service: same result
                if op['kind'] == 'gaa':
                    # not a tag: its content is only required to be the same in every configuration
                    # (below), to succeed, and to be the answer of a Get Attributes All
                    bad = None if (sts in (0, None) and val and 'get_attributes_all' in rpy) else \
                        'status %r value %r, reply keys %r' % (sts, val, sorted(k for k in rpy.keys() if '.' not in k)[:6])
                else:
                    bad = result_matches(op, exp, sts, val)
                if bad:
                    w.violation('c12-wrong-result', 'depth=%d multiple=%d fragment=%s: operation #%d %r (%s) -> %s' % (
                        depth, multiple, fragment, i, texts[i], short(op), bad), op=op['kind'], depth=depth, multiple=multiple)
                vec.append((sts if not isinstance(sts, tuple) else (sts[0], tuple(sts[1])),
                            repr(val) if not isinstance(val, list) else repr([x for x in val])))
                stats['compared'] += 1
            order = [r[0] for r in results]
            if order != sorted(order):
                w.violation('c12-result-order', 'depth=%d multiple=%d: result indices out of order %r' % (depth, multiple, order[:20]))
            outcomes.append((vec, repr(w.peek())))
            d = w.state_diff()
            if d:
                w.violation('c12-state', 'depth=%d multiple=%d fragment=%s: tag state differs from model %r' % (depth, multiple, fragment, d[:3]))
            # wire tap: bundles never mix route paths; members in operation order
            check_bundles(w, w.net.conns[tapidx][0].tx.data, ops, routes, multiple, stats)
        for (cfg, (vec, st)) in zip(grid[1:], outcomes[1:]):
            if vec != outcomes[0][0]:
                diff = [i for i, (a, b) in enumerate(zip(vec, outcomes[0][0])) if a != b][:3]
                w.violation('c12-config-dependent', 'results differ between %r and %r at operations %r: %r vs %r' % (
                    grid[0], cfg, diff, [vec[i] for i in diff], [outcomes[0][0][i] for i in diff]))
            if st != outcomes[0][1]:
                w.violation('c12-config-dependent-state', 'final tag state differs between %r and %r' % (grid[0], cfg))
    w.spawn(driver, 'driver')
    res = w.run()
    res['nontrivial'] = bool((stats['compared'] >= 4 and stats['configs'] >= 2) or res['violations'])
    res['notes'] = stats
    return res


def check_bundles(w, stream, ops, routes, multiple, stats):
    """Decode the client->server byte stream; every Multiple Service Packet's members must come from
    operations with the route path of the frame's Unconnected Send wrapper, in operation order."""
    frames, rest = rc.split_frames(stream)
    want = [op_request(op) if op['kind'] != 'gaa' else rc.req_get_attrs_all([('class', op['ref'][1][0]), ('instance', op['ref'][1][1])]) for op in ops]
    pos = 0
    for f in frames:
        if f.command != rc.SEND_RR:
            continue
        try:
            items = rc.dec_send_data(f)
            d = rc.dec_request(items[1][1])
        except (rc.DecodeError, IndexError):
            continue
        route = d.get('route') if d['service'] == rc.UNCONNECTED_SEND and 'request' in d else None
        inner = d.get('request', d)
        if inner.get('service') != rc.MULTIPLE or 'members' not in inner:
            continue
        stats['bundles_seen'] += 1
        body = items[1][1]
        # member bytes from the bundle
        ucs_len = struct.unpack_from('<H', body, 8)[0]
        mb = body[10:10 + ucs_len]
        plen = 2 + 2 * mb[1]
        parts, offs = rc.dec_multiple_reply(mb[plen:], strict=False)
        for p in parts:
            # find this member among the remaining operations (fragment=True rewrites the service code)
            found = None
            for j in range(pos, len(want)):
                if want[j] == p or same_request_modulo_fragment(want[j], p):
                    found = j
                    break
            if found is None:
                continue
            if found < pos:
                w.violation('c12-bundle-order', 'bundle member for operation #%d appears after #%d' % (found, pos))
            pos = found + 1
            if route is not None and list(route) != route_segments(routes[found]):
                w.violation('c12-bundle-mixes-routes', 'operation #%d (route %r) was bundled into a packet sent with route path %r' % (
                    found, routes[found], route))


def same_request_modulo_fragment(a, b):
    """a: reference request for the structured op; b: what the client sent.  With fragment=True the
    client sends Read/Write Tag as the Fragmented service with offset 0."""
    if a[:1] == b'\x4c' and b[:1] == b'\x52':
        return a[1:] + b'\0\0\0\0' == b[1:]
    if a[:1] == b'\x4d' and b[:1] == b'\x53':
        plen = 2 + 2 * a[1]
        return a[1:plen + 4] + b'\0\0\0\0' + a[plen + 4:] == b[1:]
    return False


# ---------------------------------------------------------------------------- C13
def preload_unique(w):
    """Give every element of every tag a unique value (harness privilege) so that any cross-pairing
    of replies yields a wrong value."""
    n = 0
    snap = {}
    for sid, arr in w.model.store.items():
        t = w.model.stype[sid]
        vals = []
        for i in range(len(arr)):
            n += 1
            if t == 'BOOL':
                vals.append(bool((n * 7 + i) % 3 == 0))
            elif t in STRINGS:
                vals.append('u%d' % n)
            elif t in ('REAL', 'LREAL'):
                vals.append(float(n) + 0.5)
            else:
                lo, hi = rc.INT_RANGE[t]
                vals.append(n % (hi + 1))
        snap[sid] = vals
    w.model.restore(snap)
    w.poke({sid: v for sid, v in snap.items() if any(s == sid for s in w.model.addr.values())})


def count_complete_replies(stream):
    """Number of service replies (bundle members counted individually) in the complete SendRRData
    frames of a server->client byte stream."""
    frames, rest = rc.split_frames(stream)
    n = 0
    for f in frames:
        if f.command != rc.SEND_RR or f.status != 0:
            continue
        try:
            items = rc.dec_send_data(f, strict=False)
            r = rc.dec_reply(items[1][1])
            if r.service == 0x8A and r.status == 0:
                parts, _ = rc.dec_multiple_reply(r.payload, strict=False)
                n += len(parts)
            else:
                n += 1
        except (rc.DecodeError, IndexError):
            continue
    return n


@world('c13')
def c13(tapes, params):
    w = EnipWorld(tapes, params)
    g, sch = w.gen, w.sch
    m = w.m
    client = m['client']
    params.setdefault('budget', 488)
    w.lat_mode = 'zero'
    w.seg_mode = sch.choice(['asis', 'split', 'bytes', 'asis'], 'segm')
    w.gen_tags(ntags=g.between(1, 3, 'ntags'), maxlen=params.get('maxlen', 30), types=[t for t in
               ['INT', 'DINT', 'REAL', 'UINT', 'LINT', 'SINT', 'SSTRING', 'UDINT', 'LREAL']], min_storages=1)
    w.start_server()
    mode = g.weighted([(3, 'pipeline'), (2, 'synchronous'), (2, 'proxy')], 'mode')
    mode = params.get('mode') or mode
    nops = g.between(2, params.get('max_ops', 12), 'nops')
    depth = g.between(1, 8, 'depth')
    # small packet budgets as well: several Multiple Service Packets in flight for a dozen operations
    multiple = g.choice([0, 0, 250, 500, 100, 60], 'multiple')
    tmo = g.choice([1.0, 5.0, 0.5], 'timeout')
    # fault plan for the client's connections (connection index >= 1: index 0 is the boot session)
    kind = g.weighted([(3, 'FIN'), (3, 'RST'), (2, 'STALL'), (2, 'DROP'), (1, 'C2S'), (1, 'SLOW'), (1, 'NONE')], 'fkind')
    kind = params.get('kind') or kind
    cut = params.get('cut')
    stats = {'mode': mode, 'kind': kind, 'results': 0, 'raised': None, 'complete': False, 'cut': None, 'reply_len': 0,
             'polls_ok': 0, 'polls_failed': 0, 'recovered': None}
    heal_at = [None]
    nfaulty = [0]
    est_total = [200]
    est_bounds = []

    def plan(idx, c2s, s2c, peer):
        EnipWorld._conn_plan(w, idx, c2s, s2c, peer)
        if idx == 0 or (heal_at[0] is not None and w.sched.now >= heal_at[0]):
            return
        nfaulty[0] += 1
        est = max(est_total[0], 30)
        # mostly anywhere inside the reply stream; also exactly *between* two replies (everything sent so
        # far has been answered when the connection dies), inside the first header, or beyond the end
        bnd = est_bounds[sch.draw(len(est_bounds), 'kb')] if est_bounds else 28
        k = cut if cut is not None else sch.weighted([(6, 28 + sch.draw(est - 28, 'k1')), (1, 28 + sch.draw(24, 'k2')),
                                                       (1, sch.draw(28, 'k0')), (1, est + sch.draw(40, 'k3')), (3, bnd)], 'cutk')
        stats['cut'] = k

        def both(p):
            # the connection is gone in both directions: the server sees the end as well
            c2s.close_write()
        if kind in ('FIN', 'RST', 'STALL'):
            s2c.cut_at = k
            s2c.cut_kind = kind
            if kind != 'STALL':
                s2c.on_cut = both
        elif kind == 'DROP':
            s2c.drop_sends = (1 + sch.draw(max(1, nops), 'dropj'),)
        elif kind == 'C2S':
            c2s.cut_at = 28 + sch.draw(40 * nops, 'ck')
            c2s.cut_kind = sch.choice(['FIN', 'STALL'], 'ckind')
            if c2s.cut_kind == 'FIN':
                c2s.on_cut = lambda p: s2c.close_write()
        elif kind == 'SLOW':
            s2c.latency = lambda: tmo * (0.2 + sch.draw(30, 'slow') / 10.0)
    w.net.conn_plan = plan

    def estimate(ops):
        # size of the fault-free reply stream: Register reply + one SendRRData frame per read
        tot = 28
        del est_bounds[:]
        for op in ops:
            exp = w.model.apply(op)
            est_bounds.append(tot)
            tot += 40 + len(expected_reply_bytes(op, exp))
        est_total[0] = tot

    def gen_reads():
        tags = sorted(w.model.tags.values(), key=lambda t: t.name)
        ops, texts = [], []
        for _ in range(nops):
            t = g.choice(tags, 'rt')
            i = g.draw(t.length, 'ri')
            n = 1 + g.draw(min(t.length - i, 6), 'rn')
            op = {'kind': 'read', 'ref': ('name', t.name), 'index': i, 'elements': n}
            ops.append(op)
            texts.append('%s[%d-%d]' % (t.name, i, i + n - 1))
        return ops, texts

    def connector_driver():
        boot = RefSession(w, 'boot', chunk_mode='whole')
        boot.connect()
        boot.register()
        w.bind_auto_tags()
        boot.close()
        preload_unique(w)
        ops, texts = gen_reads()
        estimate(ops)
        exps = [w.model.apply(op) for op in ops]
        w.samples.append({'mode': mode, 'ops': texts[:8], 'fault': kind, 'depth': depth, 'multiple': multiple, 'timeout': tmo})
        results = []
        raised = None
        conn = None
        try:
            conn = client.connector(host='127.0.0.1', port=PORT, timeout=tmo)
            with conn:
                parsed = list(client.parse_operations(texts))
                if mode == 'pipeline':
                    gen = conn.pipeline(parsed, depth=depth, multiple=multiple, timeout=tmo)
                else:
                    gen = conn.synchronous(parsed, multiple=multiple, timeout=tmo)
                for res in gen:
                    results.append(res)
        except Exception as exc:        # noqa: BLE001
            raised = '%s: %s' % (type(exc).__name__, str(exc)[:200])
        stats['results'] = len(results)
        stats['raised'] = raised
        # what the network actually delivered to the client
        delivered_replies = None
        if len(w.net.conns) > 1:
            s2c = w.net.conns[1][0].rx
            stats['reply_len'] = len(s2c.data)
            delivered = bytes(s2c.data)
            if kind == 'STALL' and s2c.cut_fired:
                delivered = delivered[:s2c.cut_at]
            delivered_replies = count_complete_replies(delivered)
        stats['fired'] = dict(w.net.faults_fired)
        # (1) every result is the right one for its own operation
        seen_idx = []
        for k, res in enumerate(results):
            idx, dsc, req, rpy, sts, val = res
            if k >= len(ops):
                w.violation('c13-extra-result', '%s yielded more results (%d) than operations (%d)' % (mode, len(results), len(ops)), mode=mode)
                break
            bad = result_matches(ops[k], exps[k], sts, val)
            if bad:
                w.violation('c13-wrong-result', '%s depth=%d multiple=%d fault %s@%s: result #%d for %r -> %s (this is how a reply paired with '
                            'the wrong request looks)' % (mode, depth, multiple, kind, stats['cut'], k, texts[k], bad), mode=mode, fault=kind)
        # (2) no result without a completely delivered reply
        if delivered_replies is not None and len(results) > delivered_replies:
            w.violation('c13-result-without-reply', '%s fault %s@%s: %d results but only %d replies were completely delivered' % (
                mode, kind, stats['cut'], len(results), delivered_replies), mode=mode, fault=kind)
        # (3) all results, or an error
        stats['complete'] = len(results) == len(ops)
        if len(results) < len(ops) and raised is None:
            w.violation('c13-silent-short-result', '%s depth=%d multiple=%d timeout=%.1f fault %s@%s: %d results for %d operations and no error' % (
                mode, depth, multiple, tmo, kind, stats['cut'], len(results), len(ops)), mode=mode, fault=kind)
        if conn is not None:
            try:
                conn.close()
            except Exception:       # noqa: BLE001
                pass

    def proxy_driver():
        boot = RefSession(w, 'boot', chunk_mode='whole')
        boot.connect()
        boot.register()
        w.bind_auto_tags()
        boot.close()
        preload_unique(w)
        ops, texts = gen_reads()
        estimate(ops)
        exps = {}
        for op, tx in zip(ops, texts):
            exps[tx] = (op, w.model.apply(op))
        # some parameters are (address, CIP type) pairs: read with Get Attribute Single and converted by
        # the proxy from the raw bytes -- results of different declared types within one exchange
        plist = list(texts)
        for j, op in enumerate(ops):
            t = w.model.tags[op['ref'][1].lower()]
            if t.addr is not None and t.tname in ('INT', 'DINT', 'REAL', 'SINT', 'UINT', 'UDINT') and g.chance(1, 3, 'typed'):
                gop = {'kind': 'gas', 'ref': ('addr', t.addr)}
                par = ('@%d/%d/%d' % t.addr, t.tname)
                if par not in exps:
                    exps[par] = (gop, w.model.apply(gop))
                    plist[j] = par
        texts = plist
        w.samples.append({'mode': mode, 'params': [repr(x) for x in texts[:8]], 'fault': kind, 'depth': depth, 'multiple': multiple, 'timeout': tmo})
        heal_at[0] = w.sched.now + g.choice([3.0, 12.0, 40.0], 'heal')
        via = m['get_attribute'].proxy('127.0.0.1', port=PORT, timeout=tmo, depth=depth, multiple=multiple,
                                      identity_default='sim')
        cycle_results = []
        good_after_heal = [None]

        def process(p, v):
            op, exp = exps[p]
            ok = True
            if exp.ok():
                try:
                    ok = v is not None and rc.enc_elems(exp.tname, list(v)) == rc.enc_elems(exp.tname, exp.values)
                except Exception:       # noqa: BLE001
                    ok = False
            else:
                ok = not v
            if not ok:
                w.violation('c13-wrong-result', 'proxy/poll fault %s@%s: parameter %r delivered %r, model %s' % (
                    kind, stats['cut'], p, v, exp.describe()), mode=mode, fault=kind)
            cycle_results.append((w.sched.now, p))
            if p == texts[-1]:
                stats['polls_ok'] += 1
                if w.sched.now >= heal_at[0] and good_after_heal[0] is None:
                    good_after_heal[0] = w.sched.now
                if stats['polls_ok'] >= 3 and good_after_heal[0] is not None:
                    process.done = True
        process.done = False

        def failure(exc):
            stats['polls_failed'] += 1
            if via.gateway is not None:
                w.violation('c13-gateway-kept', 'after a failed poll (%s: %s) the proxy still holds its gateway connection' % (
                    type(exc).__name__, str(exc)[:120]), fault=kind)
            if w.sched.now > heal_at[0] + 120.0:
                process.done = True

        def giveup():
            w.sched.sleep(heal_at[0] - w.sched.now + 200.0)
            process.done = True
        w.spawn(giveup, 'giveup')
        m['poll'].run(via, process=process, failure=failure, cycle=1.0, params=list(texts), pass_thru=True, latency=0.25)
        stats['recovered'] = good_after_heal[0] is not None
        if good_after_heal[0] is None:
            w.violation('c13-no-recovery', 'faults stopped at t=%.1f; no complete correct poll within 120 simulated s afterwards '
                        '(%d polls ok, %d failed, fault %s)' % (heal_at[0] - w.sched.start_time, stats['polls_ok'], stats['polls_failed'], kind),
                        fault=kind)
        elif nfaulty[0] and stats['polls_failed']:
            # the recovered poll must run over a connection made after the failure: a new Register
            regs = sum(1 for c, srv in w.net.conns[1:] if bytes(c.tx.data[:2]) == b'\x65\x00')
            if regs < 2:
                w.violation('c13-no-reconnect', 'polls failed and later succeeded but only %d sessions were registered' % regs)
        stats['complete'] = stats['polls_ok'] > 0
        try:
            via.close_gateway()
        except Exception:       # noqa: BLE001
            pass

    drv = w.spawn(proxy_driver if mode == 'proxy' else connector_driver, 'client')
    w.run(stop_when=lambda: drv._sim_state == 'done')
    res = w.result()
    fired = sum(w.net.faults_fired.values())
    res['nontrivial'] = bool((stats['results'] + stats['polls_ok'] >= 1 and (fired or kind in ('NONE', 'SLOW'))) or res['violations'])
    res['notes'] = stats
    return res


# ---------------------------------------------------------------------------- C13, shared proxy
@world('c13s')
def c13s(tapes, params):
    """The documented multi-threaded deployment of the client: several poll.run loops in separate
    threads share ONE proxy (one session).  Faults on the connection (late, lost, cut replies) meet
    thread schedules: a poller may be pre-empted or *stalled* (losing virtual time) inside the
    proxy's gateway management, while another poller takes the connection over."""
    w = EnipWorld(tapes, params)
    g, sch = w.gen, w.sch
    m = w.m
    ga, client = m['get_attribute'], m['client']
    params.setdefault('budget', 488)
    w.lat_mode = 'zero'
    w.seg_mode = sch.choice(['asis', 'split', 'asis'], 'segm')
    w.gen_tags(ntags=g.between(1, 3, 'ntags'), maxlen=params.get('maxlen', 30), types=[t for t in
               ['INT', 'DINT', 'REAL', 'UINT', 'LINT', 'SINT', 'UDINT', 'LREAL']], min_storages=1)
    w.start_server()
    npollers = g.between(2, 3, 'npollers')
    depth = g.between(1, 4, 'depth')
    multiple = g.choice([0, 0, 250], 'multiple')
    tmo = g.choice([1.0, 0.5, 2.0], 'timeout')
    kind = g.weighted([(4, 'SLOW'), (2, 'STALL'), (2, 'DROP'), (1, 'FIN'), (1, 'RST'), (1, 'NONE')], 'fkind')
    kind = params.get('kind') or kind
    stats = {'mode': 'shared', 'kind': kind, 'pollers': npollers, 'polls_ok': 0, 'polls_failed': 0, 'values': 0,
             'recovered': None, 'complete': False}
    heal_at = [None]
    nfaulty = [0]

    # schedule space: line-level pre-emption / stalls inside the proxy's gateway management
    s = w.sched
    # focus: everything / the release path of every poll / only the code that runs after a failure
    # (the gateway being discarded), so that the few pre-emptions land where a failed connection
    # is still reachable by the other pollers
    focus = sch.weighted([(1, 'all'), (2, 'release'), (3, 'failure')], 'focus13')
    fns = (ga.proxy.close_gateway, client.client.close)
    if focus != 'failure':
        fns += (ga.proxy.__exit__, client.client.__exit__)
    if focus == 'all':
        fns += (ga.proxy.__enter__, ga.proxy.open_gateway, ga.proxy.read_details, ga.proxy.list_identity_details,
                client.client.__enter__)
    for fn in fns:
        s.add_traced(fn)
    s.preempt_left = sch.weighted([(1, 0), (3, 1), (3, 2), (2, 4)], 'pbudget')
    s.preempt_gap = {'all': sch.choice([6, 25, 80, 300], 'pgap13'), 'release': sch.choice([4, 12, 40, 120], 'pgap13r'),
                     'failure': sch.choice([1, 3, 6, 12], 'pgap13f')}[focus]
    stats['focus'] = focus
    s.stall_choices = (0.002, 0.05, 0.3, 1.1, 2.5)
    s.stall_chance = (2, 3)
    s._arm_preempt()
    # the connectors' own locks (created while the run goes on) are scheduling points here, and a
    # poller that has just released one is held back or stalled in 1 of 4 releases
    s.unlock_hold = (1, 3)
    s.unlock_budget = sch.choice([0, 1, 2, 3], 'ubudget')      # stalls after a release: a few per run, spread out
    s.unlock_stall = (1, sch.choice([2, 6, 15], 'ustallden'))

    class SharedProxy(ga.proxy):
        """The proxy as deployed, with one harness-side addition: the lock of each gateway connection it
        creates is marked as a scheduling point (acquire/release yield; a release may be followed by a
        hold-back or a stall of the releasing poller)."""
        def open_gateway(self):
            super(SharedProxy, self).open_gateway()
            gw = self.gateway
            if gw is not None and not gw.frame.lock.shared:
                gw.frame.lock.shared = True
                gw.frame.lock.name = 'gateway'

    def plan(idx, c2s, s2c, peer):
        EnipWorld._conn_plan(w, idx, c2s, s2c, peer)
        # every request takes some virtual time to reach the server: with an instantaneous network
        # and zero-cost computation a poll loop whose cycle arithmetic rounds to "due now" would spin
        # at one virtual instant (real time always advances)
        c2s.latency = lambda sch=sch: 0.001 * (1 + sch.draw(4, 'c2slat'))
        if idx == 0 or heal_at[0] is None or w.sched.now >= heal_at[0]:
            return
        nfaulty[0] += 1
        k = 28 + sch.draw(300, 'k1')

        def both(p):
            c2s.close_write()
        if kind in ('FIN', 'RST', 'STALL'):
            s2c.cut_at = k
            s2c.cut_kind = kind
            if kind != 'STALL':
                s2c.on_cut = both
        elif kind == 'DROP':
            s2c.drop_sends = (1 + sch.draw(6, 'dropj'),)
        elif kind == 'SLOW':
            # replies late by up to a few timeouts: they arrive after their requester gave up
            slow_from = 1 + sch.draw(4, 'slowfrom')
            cnt = [0]

            def lat():
                cnt[0] += 1
                if cnt[0] <= slow_from:
                    return 0.0
                return tmo * sch.choice([0.7, 1.02, 1.1, 1.3, 1.6, 2.2, 3.0], 'slow')
            s2c.latency = lat
    w.net.conn_plan = plan

    def driver():
        boot = RefSession(w, 'boot', chunk_mode='whole')
        boot.connect()
        boot.register()
        w.bind_auto_tags()
        boot.close()
        preload_unique(w)
        tags = sorted(w.model.tags.values(), key=lambda t: t.name)
        heal_at[0] = w.sched.now + g.choice([2.0, 5.0, 10.0], 'heal')
        via = SharedProxy('127.0.0.1', port=PORT, timeout=tmo, depth=depth, multiple=multiple, identity_default='sim')
        same_n = g.chance(1, 2, 'samen')
        n0 = 1 + g.draw(3, 'n0')
        pollers = []
        done_all = {'flag': False}

        def make(pi):
            nops = g.between(1, 4, 'nops')
            exps, texts = {}, []
            for _ in range(nops):
                t = g.choice(tags, 'rt')
                n = min(n0, t.length) if same_n else 1 + g.draw(min(t.length, 4), 'rn')
                i = g.draw(t.length - n + 1, 'ri')
                tx = '%s[%d-%d]' % (t.name, i, i + n - 1)
                if tx in exps:
                    continue
                op = {'kind': 'read', 'ref': ('name', t.name), 'index': i, 'elements': n}
                exps[tx] = (op, w.model.apply(op))
                texts.append(tx)
            st = {'ok': 0, 'failed': 0, 'good_after_heal': None, 'texts': texts}

            def process(p, v):
                op, exp = exps[p]
                stats['values'] += 1
                try:
                    ok = v is not None and rc.enc_elems(exp.tname, list(v)) == rc.enc_elems(exp.tname, exp.values)
                except Exception:       # noqa: BLE001
                    ok = False
                if not ok:
                    w.violation('c13-wrong-result', 'shared proxy, poller %d of %d, fault %s: parameter %r delivered %r, model %s '
                                '(a reply paired with another request)' % (pi, npollers, kind, p, v, exp.describe()), mode='shared', fault=kind)
                if p == texts[-1]:
                    st['ok'] += 1
                    stats['polls_ok'] += 1
                    if w.sched.now >= heal_at[0] and st['good_after_heal'] is None:
                        st['good_after_heal'] = w.sched.now
                if done_all['flag'] or (st['ok'] >= 2 and all(q['good_after_heal'] is not None for q in pollers)):
                    process.done = True
            process.done = False

            def failure(exc):
                st['failed'] += 1
                stats['polls_failed'] += 1
                if done_all['flag'] or w.sched.now > heal_at[0] + 150.0:
                    process.done = True
            st['process'], st['failure'] = process, failure
            return st

        for pi in range(npollers):
            pollers.append(make(pi))
        w.samples.append({'mode': 'shared', 'params': [q['texts'] for q in pollers], 'fault': kind, 'depth': depth,
                          'multiple': multiple, 'timeout': tmo})

        def giveup():
            w.sched.sleep(heal_at[0] - w.sched.now + 220.0)
            done_all['flag'] = True
            for q in pollers:
                q['process'].done = True
        w.spawn(giveup, 'giveup')
        ths = []
        for pi, q in enumerate(pollers):
            def body(q=q):
                m['poll'].run(via, process=q['process'], failure=q['failure'], cycle=g_cycle[0], params=list(q['texts']),
                              pass_thru=True, latency=0.25)
            ths.append(w.spawn(body, 'poller%d' % pi, trace=True))
        for th in ths:
            th.join()
        rec = all(q['good_after_heal'] is not None for q in pollers)
        stats['recovered'] = rec
        stats['stalls'] = w.sched.stalls
        if not rec:
            w.violation('c13-no-recovery', 'shared proxy: faults stopped at t=%.1f; pollers %r had no complete correct poll within 150 '
                        'simulated s afterwards (polls ok %r, failed %r, fault %s)' % (
                            heal_at[0] - w.sched.start_time, [i for i, q in enumerate(pollers) if q['good_after_heal'] is None],
                            [q['ok'] for q in pollers], [q['failed'] for q in pollers], kind), mode='shared', fault=kind)
        stats['complete'] = stats['polls_ok'] > 0
        try:
            via.close_gateway()
        except Exception:       # noqa: BLE001
            pass

    g_cycle = [g.choice([0.3, 1.0, 0.7], 'cycle')]
    drv = w.spawn(driver, 'client')
    w.run(stop_when=lambda: drv._sim_state == 'done')
    res = w.result()
    res['nontrivial'] = bool(stats['polls_ok'] >= 2 or res['violations'])
    stats['fired'] = dict(w.net.faults_fired)
    res['notes'] = stats
    return res
