"""ENIP-conc worlds: several sessions running concurrently, line-level pre-emption on.

  c09  concurrent sessions are isolated and each request is atomic (linearizability vs the array model)
"""
import struct

from sim.runner import world
from sim.sched import Waiter
from ref import refcodec as rc
from ref import linz
from ref.model import Expected
from .enip_base import (EnipWorld, RefSession, Violation, gen_op, op_request, check_reply, short,
                        SERVICE, expected_reply_bytes, gen_fit)
from .enip_proto import member_expect

WIDE = ['INT', 'DINT', 'UDINT', 'LINT', 'REAL', 'UINT', 'LREAL']


def reply_of(model, op):
    exp = model.apply(op)
    if exp.unknown:
        exp = Expected(status=0x05, ext=(0,))
    if exp.any_error:
        return None
    return expected_reply_bytes(op, exp)


def gen_conc_op(g, model, tag, unique, lo, hi, sess):
    """A multi-element read or write on tag within [lo, hi) (shared region) by name or address."""
    k = g.weighted([(4, 'write'), (6, 'read'), (1, 'writefrag'), (1, 'readfrag'), (1, 'gas'), (1, 'sas')], 'ck')
    if k in ('gas', 'sas') and tag.addr is None:
        k = 'read' if k == 'gas' else 'write'
    if k == 'gas':
        return {'kind': 'gas', 'ref': ('addr', tag.addr)}
    if k == 'sas':
        vals = [gen_fit(g, tag.tname, tag.tname, unique, True) for _ in range(tag.length)]
        return {'kind': 'sas', 'ref': ('addr', tag.addr), 'data': rc.enc_elems(tag.tname, vals)}
    idx = lo + g.draw(hi - lo, 'ci')
    n = 1 + g.draw(hi - idx, 'cn')
    if g.chance(1, 2, 'span'):
        idx, n = lo, hi - lo
    op = {'kind': k, 'ref': ('name', tag.name), 'index': idx, 'elements': n}
    if tag.addr is not None and g.chance(1, 4, 'byaddr'):
        op['ref'] = ('addr', tag.addr)
    if k in ('readfrag', 'writefrag'):
        op['offset'] = 0
    if k in ('write', 'writefrag'):
        op['tname'] = tag.tname
        op['values'] = [gen_fit(g, tag.tname, tag.tname, unique, True) for _ in range(n)]
    return op


@world('c09')
def c09(tapes, params):
    # C09 is about tag storage seen by several threads: the storage accessors get most of the focused runs
    params.setdefault('focus_weights', {'__setitem__': 14, '__getitem__': 10, 'produce': 2, 'TYPE.produce': 14, 'REAL.produce': 3, 'LREAL.produce': 3})
    rw = bool(params.get('rw'))
    if rw:
        # readers against writers of one whole tag: half of the sessions only read the whole hot tag,
        # the others only write all of it (unique values); pre-emption confined to the storage
        # accessors and the element encoders, i.e. to the path between "executed" and "reply encoded"
        params['focus_weights'] = {'__setitem__': 10, '__getitem__': 10, 'TYPE.produce': 14, 'REAL.produce': 4, 'LREAL.produce': 4,
                                   'Attribute.produce': 6, 'request': 4, 'reply_elements': 3}
        params.setdefault('budget', 488)
        params.setdefault('max_sessions', 3)
        params.setdefault('force_one', True)
    storm = bool(params.get('storm'))
    if storm:
        # bundle storm: every session sends Multiple Service Packets at the same time, pre-emption is
        # confined to the deferred parsing of bundle members (which re-enters the shared Object parser),
        # and a thread that releases a shared lock is often held back right there
        params.setdefault('focus_fn', 'state_multiple_service.terminate')
    cold = bool(params.get('cold'))
    if cold:
        # cold start: the sessions' very first requests meet the simulator's lazy set-up (objects and
        # tags are created by whichever request comes first); no barrier, pre-emption confined to it
        params.setdefault('focus_fn', 'setup_tag')
    w = EnipWorld(tapes, params, preempt=True)
    if cold:
        w.sched.preempt_left = max(w.sched.preempt_left, 2) + w.sch.draw(7, 'coldpb')
        w.sched.preempt_gap = w.sch.choice([2, 4, 8, 16], 'coldgap')
        w.sched.hold_choices = (1, 2, 4, 8, 30)
        w.sched.unlock_hold = (1, 3)
    if storm:
        w.sched.unlock_hold = (1, 3)
        w.sched.preempt_left = max(w.sched.preempt_left, 2)
    g = w.gen
    nsess = g.weighted([(1, 2), (3, 3), (3, 4), (2, params.get('max_sessions', 5))], 'nsess') if not rw else g.between(2, 3, 'nsessrw')
    # few short tags so that histories stay checkable and ranges overlap
    params.setdefault('budget', g.choice([488, 488, 16, 40], 'budget'))
    w.gen_tags(ntags=g.between(1, 3, 'ntags') if not cold else g.between(3, 12, 'ntagsc'), types=WIDE, maxlen=params.get('maxlen', 8),
               shared=not cold)
    for t in w.model.tags.values():
        pass
    w.start_server()
    tags = sorted(w.model.tags.values(), key=lambda t: t.name)
    hot = [max(tags, key=lambda t: (t.length, t.name))]
    unique = {'n': 0}
    init = w.model.snapshot()
    history = []
    ready = {'n': 0}
    stats = {'ops': 0, 'bundles': 0, 'overlap_ops': 0}
    plan = {}

    def record(s, inv, ret, op, obs, after=None):
        history.append(dict(inv=inv, ret=ret, sess=s.name, op=op, obs=obs, after=after))
        return len(history) - 1

    def session_main(i):
        s = RefSession(w, 's%d' % i)
        s.connect()
        s.register()
        s.connected = False
        if not storm and g.chance(1, 5, 'conn?'):
            r = s.forward_open(large=bool(g.draw(2, 'lg')))
            s.connected = r is not None and r.status == 0
        ready['n'] += 1
        if cold:
            # a Register reply means the set-up has completed (it runs under its lock before the first reply)
            w.bind_auto_tags()
        else:
            w.sched.block(Waiter(cond=lambda: ready['n'] >= nsess, why='barrier'))
            if i == 0:
                w.bind_auto_tags()
        nops = g.between(3, params.get('max_ops', 9), 'nops')
        for _ in range(nops):
            # most requests go to one hot tag, so that multi-element reads and writes of different
            # sessions really overlap in time
            tag = hot[0] if g.chance(3, 4, 'hot?') else g.choice(tags, 'ctag')
            L = tag.length
            # private sub-range of this session vs the shared rest
            if L >= nsess + 1 and g.chance(1, 6, 'private'):
                lo, hi = i, i + 1
            else:
                lo, hi = 0, L
                stats['overlap_ops'] += 1
            if rw:
                tag, lo, hi = hot[0], 0, hot[0].length
            bundle = g.chance(3 if storm else 1, 4, 'bundle?') and not s.connected and not rw
            if bundle:
                ops = [gen_conc_op(g, w.model, g.choice(tags, 'btag'), unique, 0, 1, i) for _ in range(g.between(2, 4, 'nb'))]
                ops = [dict(o) for o in ops]
                for o in ops:
                    if 'index' in o:
                        t = w.model.tags[o['ref'][1].lower()] if o['ref'][0] == 'name' else None
                cip = rc.req_multiple([op_request(o) for o in ops])
                stats['bundles'] += 1
            else:
                ops = [gen_conc_op(g, w.model, tag, unique, lo, hi, i)]
                if rw:
                    o = ops[0]
                    want_read = (i % 2 == 0)
                    if o['kind'] in ('gas', 'sas'):
                        ok = (o['kind'] == 'gas') == want_read
                    else:
                        ok = (o['kind'] in ('read', 'readfrag')) == want_read
                    if not ok or ('index' in o and (o['index'], o['elements']) != (0, tag.length)):
                        # whole-tag read or whole-tag write, by the session's role
                        o = {'kind': 'read' if want_read else 'write', 'ref': ('name', tag.name), 'index': 0, 'elements': tag.length}
                        if not want_read:
                            o['tname'] = tag.tname
                            o['values'] = [gen_fit(g, tag.tname, tag.tname, unique, True) for _ in range(tag.length)]
                        ops = [o]
                cip = op_request(ops[0])
            ctx = s.context()
            if s.connected:
                s.seq_count = (s.seq_count + 1) & 0xFFFF
                raw = rc.send_unit(s.session, s.conn_id, s.seq_count, cip, ctx)
            else:
                raw = rc.send_rr(s.session, s.wrap(cip, 'none'), ctx)
            s.send(raw)
            inv = w.sched.log('inv', s.name)
            f = s.recv_frame()
            ret = w.sched.log('ret', s.name)
            stats['ops'] += 1
            if f is None:
                w.violation('c09-session-lost', '%s: no reply to %s (%s)' % (
                    s.name, [short(o) for o in ops], 'EOF' if s.eof else 'reset' if s.rst else 'timeout'))
                raise Violation()
            if f.context != ctx or f.session != s.session:
                w.violation('c09-foreign-reply', '%s: received a reply with context %s session 0x%x; own context %s session 0x%x' % (
                    s.name, f.context.hex(), f.session, ctx.hex(), s.session))
                raise Violation()
            if f.status != 0:
                w.violation('c09-parse-failure', '%s: request %s answered with encapsulation status 0x%x' % (
                    s.name, [short(o) for o in ops], f.status))
                raise Violation()
            try:
                items = rc.dec_send_data(f)
                body = items[1][1]
                if s.connected:
                    body = body[2:]
                if bundle:
                    r = rc.dec_reply(body)
                    rc.need(r.service == 0x8A and r.status == 0, 'bundle reply %r' % r)
                    parts, _ = rc.dec_multiple_reply(r.payload)
                    rc.need(len(parts) == len(ops), 'bundle member count')
                else:
                    parts = [body]
            except (rc.DecodeError, IndexError) as exc:
                w.violation('reply-undecodable', '%s: %s' % (s.name, exc))
                raise Violation()
            prev = None
            for o, p in zip(ops, parts):
                prev = record(s, inv, ret, o, p, after=prev)
            w.samples.append({'s': s.name, 'ops': [short(o) for o in ops], 'inv': inv, 'ret': ret})
        s.close()

    def finale():
        w.sched.block(Waiter(cond=lambda: all(t._sim_state == 'done' for t in sess_threads), why='await-sessions'))
        s = RefSession(w, 'final', chunk_mode='whole')
        s.connect()
        s.register()
        for t in tags:
            op = {'kind': 'read', 'ref': ('name', t.name), 'index': 0, 'elements': t.length}
            ctx = s.context()
            s.send(rc.send_rr(s.session, s.wrap(op_request(op), 'none'), ctx))
            inv = w.sched.log('inv', 'final')
            f = s.recv_frame()
            ret = w.sched.log('ret', 'final')
            if f is None or f.status != 0:
                w.violation('c09-session-lost', 'final read-back of %s failed' % t.name)
                raise Violation()
            record(s, inv, ret, op, rc.dec_send_data(f)[1][1])
        s.close()

    sess_threads = [w.spawn(lambda i=i: session_main(i), 's%d' % i) for i in range(nsess)]
    w.spawn(finale, 'final')
    res = w.run()
    undecided = 0
    if not res['violations'] and not res.get('error'):
        w.model.restore(init)
        try:
            ok, info = linz.check(history, w.model, reply_of, max_nodes=params.get('max_nodes', 200000))
            res['linz_nodes'] = info['nodes']
            if not ok:
                pre = info['longest_prefix']
                stuck = [short(h['op']) for i, h in enumerate(history) if i not in pre][:4]
                v = w.violation('c09-not-linearizable',
                                'no sequential order of the %d requests explains the replies; longest explainable prefix has %d; '
                                'unexplained e.g. %r; history %r' % (
                                    len(history), len(pre), stuck,
                                    [(h['sess'], h['inv'], h['ret'], short(h['op']), h['obs'].hex()[:40]) for h in history][:14]))
                res['violations'] = w.violations
        except linz.Undecided as exc:
            undecided = 1
    res['undecided'] = undecided
    res['nontrivial'] = bool((stats['ops'] >= 4 and stats['overlap_ops'] >= 2 and not undecided) or res['violations'])
    res['notes'] = dict(stats, hist=len(history), undecided=undecided)
    res['states'] = []
    return res
