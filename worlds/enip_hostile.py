"""ENIP-hostile world (C08): an attacker session writes garbage and structure-aware mutations of
valid frames; a victim session runs model-checked traffic; a prober opens fresh sessions.

Oracles: bounded work per input byte (deterministic call count of the handling thread), failures
stay inside the attacked connection, any tag change is explained by a complete well-formed write in
the delivered bytes, victim and prober keep being served correctly.
"""
import struct

from sim.runner import world
from sim.sched import Waiter
from ref import refcodec as rc
from ref.model import STRINGS
from .enip_base import (EnipWorld, RefSession, Violation, gen_op, op_request, check_reply, short, PORT)

# bounded work: calls <= WORK_A + WORK_B * bytes delivered (calibrated on valid traffic, see DESIGN 4/C08)
WORK_A = 400000
WORK_B = 6000


def frame_fields(raw):
    """(offset, width, name) of the length/count/offset/size fields of a frame built by refcodec."""
    out = [(2, 2, 'encap.length'), (0, 2, 'encap.command'), (8, 4, 'encap.status'), (20, 4, 'encap.options')]
    if len(raw) < 24:
        return out
    cmd = struct.unpack_from('<H', raw, 0)[0]
    if cmd not in (rc.SEND_RR, rc.SEND_UNIT) or len(raw) < 40:
        if cmd == rc.REGISTER and len(raw) >= 28:
            out += [(24, 2, 'register.version'), (26, 2, 'register.options')]
        return out
    out += [(24, 4, 'send.interface'), (28, 2, 'send.timeout'), (30, 2, 'cpf.count'),
            (32, 2, 'cpf.item0.type'), (34, 2, 'cpf.item0.length')]
    o = 36 + struct.unpack_from('<H', raw, 34)[0]
    if o + 4 > len(raw):
        return out
    out += [(o, 2, 'cpf.item1.type'), (o + 2, 2, 'cpf.item1.length')]
    c = o + 4
    if cmd == rc.SEND_UNIT:
        out.append((c, 2, 'unit.sequence'))
        c += 2
    return out + cip_fields(raw, c, 'cip')


def cip_fields(raw, c, pfx, depth=0):
    out = []
    if c + 2 > len(raw) or depth > 3:
        return out
    svc = raw[c]
    out += [(c, 1, pfx + '.service'), (c + 1, 1, pfx + '.path_size')]
    pend = c + 2 + 2 * raw[c + 1]
    # segments: symbolic length bytes
    i = c + 2
    while i + 1 < min(pend, len(raw)):
        if raw[i] == 0x91:
            out.append((i + 1, 1, pfx + '.symbol_len'))
            i += 2 + raw[i + 1] + (raw[i + 1] % 2)
        elif raw[i] & 0xE3 in (0x20, 0x21, 0x22):
            out.append((i, 1, pfx + '.segment_type'))
            i += (2, 4, 6)[raw[i] & 3] if (raw[i] & 3) < 3 else 2
        else:
            i += 2
    if pend > len(raw):
        return out
    is_ucs = svc == 0x52 and raw[c + 2:c + 6] == b'\x20\x06\x24\x01'
    if is_ucs and pend + 4 <= len(raw):
        out += [(pend, 1, pfx + '.priority'), (pend + 1, 1, pfx + '.ticks'), (pend + 2, 2, pfx + '.msg_length')]
        ml = struct.unpack_from('<H', raw, pend + 2)[0]
        out += cip_fields(raw, pend + 4, pfx + '.req', depth + 1)
        rp = pend + 4 + ml + (ml % 2)
        if rp + 2 <= len(raw):
            out += [(rp, 1, pfx + '.route_size'), (rp + 1, 1, pfx + '.route_pad')]
    elif svc == rc.MULTIPLE and pend + 2 <= len(raw):
        n = struct.unpack_from('<H', raw, pend)[0]
        out.append((pend, 2, pfx + '.multi_count'))
        for k in range(min(n, 16)):
            if pend + 4 + 2 * k <= len(raw):
                out.append((pend + 2 + 2 * k, 2, pfx + '.multi_offset%d' % k))
                off = struct.unpack_from('<H', raw, pend + 2 + 2 * k)[0]
                out += cip_fields(raw, pend + off, pfx + '.m%d' % k, depth + 1)
    elif svc in (rc.READ_TAG, rc.READ_FRAG) and pend + 2 <= len(raw):
        out.append((pend, 2, pfx + '.elements'))
        if svc == rc.READ_FRAG and pend + 6 <= len(raw):
            out.append((pend + 2, 4, pfx + '.offset'))
    elif svc in (rc.WRITE_TAG, rc.WRITE_FRAG) and pend + 4 <= len(raw):
        out += [(pend, 2, pfx + '.type'), (pend + 2, 2, pfx + '.elements')]
        if svc == rc.WRITE_FRAG and pend + 8 <= len(raw):
            out.append((pend + 4, 4, pfx + '.offset'))
    elif svc in (rc.FWD_OPEN, rc.FWD_OPEN_LARGE) and pend + 36 <= len(raw):
        out += [(pend + 2, 4, pfx + '.o_t_id'), (pend + 10, 2, pfx + '.conn_serial'), (pend + 18, 1, pfx + '.multiplier')]
        out.append((len(raw) - 1 - 2 * 3 - 1, 1, pfx + '.conn_path_size'))
    return out


def mutate(g, raw):
    """-> (bytes, description).  Structure-aware and blind mutations of one valid frame."""
    k = g.weighted([(5, 'field'), (2, 'bitflip'), (2, 'truncate'), (1, 'insert'), (1, 'delete'), (1, 'random'),
                    (1, 'replybit'), (1, 'dup')], 'mk')
    b = bytearray(raw)
    if k == 'field':
        fs = [f for f in frame_fields(raw) if f[0] + f[1] <= len(raw)]
        if not fs:
            return bytes(b) + b'\x00', 'append a byte'
        # the fields that steer how much is read or written are mutated three times as often as envelope fields
        hot = ('elements', 'type', 'offset', 'multi_count', 'path_size', 'symbol_len', 'msg_length', 'route_size',
               'item1.length', 'item0.length', 'encap.length', 'cpf.count')
        pool = []
        for f in fs:
            pool += [f] * (3 if (f[2].endswith(hot) or 'multi_offset' in f[2]) else 1)
        off, wd, name = pool[g.draw(len(pool), 'fld')]
        cur = int.from_bytes(b[off:off + wd], 'little')
        top = (1 << (8 * wd)) - 1
        nv = g.choice([0, 1, cur + 1, max(cur - 1, 0), cur * 2, cur + 2, top, top - 1, top >> 1, g.draw(top + 1, 'rv') if top < 70000 else g.draw(70000, 'rv')], 'nv') & top
        b[off:off + wd] = nv.to_bytes(wd, 'little')
        return bytes(b), 'field %s %d->%d' % (name, cur, nv)
    if not b:
        return b'\x00', 'single zero byte'
    if k == 'bitflip':
        n = 1 + g.draw(3, 'nflip')
        pos = []
        for _ in range(n):
            p = g.draw(len(b), 'fp')
            b[p] ^= 1 << g.draw(8, 'fb')
            pos.append(p)
        return bytes(b), 'bitflip at %r' % pos
    if k == 'truncate':
        p = g.draw(len(b), 'tp')
        return bytes(b[:p]), 'truncate to %d/%d' % (p, len(raw))
    if k == 'insert':
        p = g.draw(len(b) + 1, 'ip')
        ins = bytes(g.draw(256, 'ib') for _ in range(1 + g.draw(8, 'in')))
        return bytes(b[:p]) + ins + bytes(b[p:]), 'insert %d bytes at %d' % (len(ins), p)
    if k == 'delete':
        p = g.draw(len(b), 'dp')
        n = 1 + g.draw(min(8, len(b) - p), 'dn')
        return bytes(b[:p] + b[p + n:]), 'delete %d bytes at %d' % (n, p)
    if k == 'random':
        n = g.weighted([(3, 1 + g.draw(40, 'rn')), (1, 24), (1, 200 + g.draw(400, 'rn2'))], 'rl')
        return bytes(g.draw(256, 'rb') for _ in range(n)), 'random %d bytes' % n
    if k == 'replybit':
        fs = [f for f in frame_fields(raw) if f[2].endswith('.service')]
        if fs:
            off = fs[g.draw(len(fs), 'rs')][0]
            b[off] |= 0x80
        return bytes(b), 'reply bit set in a request'
    return bytes(b) + bytes(b), 'frame sent twice'


def op_from_decoded(d):
    """A lenient-decoded request (refcodec.dec_request) -> list of structured write ops (may be empty)."""
    svc = d['service']
    if svc == rc.UNCONNECTED_SEND and 'request' in d:
        return op_from_decoded(d['request'])
    if svc == rc.MULTIPLE and 'members' in d:
        out = []
        for m in d['members']:
            if m is not None:
                out += op_from_decoded(m)
        return out
    path = d['path']
    names = [s[1] for s in path if s[0] == 'symbolic']
    # cpppo stops resolving once class, instance and attribute are known and ignores what follows
    # (device.resolve); the first occurrence of each kind is the one that counts
    nums = {}
    for sg in path:
        if sg[0] in ('class', 'instance', 'attribute') and sg[0] not in nums:
            nums[sg[0]] = sg[1]
    elem = [s[1] for s in path if s[0] == 'element']
    if names:
        ref = ('name', '.'.join(names))
    elif 'class' in nums and 'instance' in nums:
        ref = ('addr', (nums['class'], nums['instance'], nums.get('attribute')))
    else:
        return []
    op = {'ref': ref, 'index': elem[0] if elem else None}
    if svc == rc.WRITE_TAG:
        op.update(kind='write', tname=d['type'], elements=d['elements'], values=d['values'])
    elif svc == rc.WRITE_FRAG:
        op.update(kind='writefrag', tname=d['type'], elements=d['elements'], offset=d['offset'], values=d['values'])
    elif svc == rc.SA_SINGLE:
        op.update(kind='sas', data=d['data'])
    else:
        return []
    return [op]


@world('c08')
def c08(tapes, params):
    w = EnipWorld(tapes, params, count_calls=True)
    g = w.gen
    w.gen_tags(ntags=g.between(2, 4, 'ntags'), maxlen=params.get('maxlen', 30), min_storages=2)
    w.net.reuse_ports = lambda: w.sch.chance(1, 2, 'reuseport')
    w.start_server()
    tags = sorted(w.model.tags.values(), key=lambda t: t.name)
    sids = []
    for t in tags:
        if t.sid not in sids:
            sids.append(t.sid)
    victim_sid = sids[-1]
    victim_tags = [t for t in tags if t.sid == victim_sid]
    unique = {'n': 0}
    nattacks = g.between(3, params.get('max_attacks', 14), 'nattacks')
    stats = {'attacks': 0, 'closed': 0, 'replied': 0, 'explained_changes': 0, 'max_calls_per_byte': 0.0, 'max_calls': 0,
             'victim_ok': 0, 'probes_ok': 0, 'kinds': {}}
    flags = {'done': False}

    def handler_of(sess):
        for t in w.sched.threads:
            c = getattr(t, 'conn', None)
            if c is not None and getattr(c, 'conn_index', None) == sess.index:
                return t
        return None

    def victim():
        s = RefSession(w, 'victim')
        s.connect()
        s.register()
        n = 0
        while not flags['done'] and n < 40:
            n += 1
            op = gen_op(g, w.model, unique, fit=True, tag=g.choice(victim_tags, 'vtag'), allow_addr=False)
            exp = w.model.apply(op)
            f, rep = s.rr(op_request(op))
            if rep is None:
                w.violation('c08-victim-broken', 'the victim session lost service at its request %d (%s)' % (n, short(op)))
                raise Violation()
            bad = check_reply(op, exp, rep)
            if bad:
                w.violation('c08-victim-wrong', 'victim: %s -> %s' % (short(op), bad))
            stats['victim_ok'] += 1
            w.sched.sleep(0.002 * (1 + w.sch.draw(20, 'think')))
        s.close()

    def probe(where):
        if w.server_thread._sim_state == 'done':
            w.violation('c08-server-down', 'the simulator main thread ended %s: %r' % (where, w.server_result))
            raise Violation()
        p = RefSession(w, 'prober', chunk_mode='whole')
        p.connect()
        p.register()
        t = g.choice(tags, 'ptag')
        if t.sid == victim_sid:
            t = tags[0]
        if t.sid != victim_sid:
            op = {'kind': 'read', 'ref': ('name', t.name), 'index': None, 'elements': min(t.length, 4)}
            exp = w.model.apply(op)
            f, rep = p.rr(op_request(op))
            bad = 'no reply' if rep is None else check_reply(op, exp, rep)
            if bad:
                w.violation('c08-probe-wrong', 'prober %s: %s -> %s' % (where, short(op), bad))
        stats['probes_ok'] += 1
        p.close()

    def valid_frame(a):
        """A valid frame for the attacker's session (returns raw bytes, description)."""
        k = g.weighted([(5, 'op'), (3, 'bundle'), (1, 'register'), (1, 'list'), (1, 'fwdopen'), (1, 'unit')], 'vk')
        ctx = a.context()
        atk_tags = [t for t in tags if t.sid != victim_sid]
        if k == 'register':
            return rc.register(ctx), 'register', []
        if k == 'list':
            return rc.list_cmd(g.choice([rc.LIST_SERVICES, rc.LIST_IDENTITY, rc.LIST_INTERFACES], 'lc'), ctx), 'list', []
        if k == 'fwdopen':
            return rc.send_rr(a.session, rc.req_forward_open(0x300 + a.index, large=bool(g.draw(2, 'lg'))), ctx), 'fwdopen', []
        if k == 'unit':
            op = gen_op(g, w.model, unique, fit=True, tag=g.choice(atk_tags, 'atag'))
            return rc.send_unit(a.session, 0x20000002, 1, op_request(op), ctx), 'unit ' + op['kind'], [op]
        if k == 'bundle':
            ops = [gen_op(g, w.model, unique, fit=True, tag=g.choice(atk_tags, 'atag'),
                          kinds=['read', 'write', 'writefrag', 'readfrag', 'sas']) for _ in range(g.between(1, 4, 'nb'))]
            return rc.send_rr(a.session, a.wrap(rc.req_multiple([op_request(o) for o in ops]), 'none'), ctx), 'bundle', ops
        op = gen_op(g, w.model, unique, fit=True, tag=g.choice(atk_tags, 'atag'))
        cip = op_request(op)
        route = 'none' if cip[:1] == b'\x52' else g.choice(['none', 'bare', [('port', 1, 0)]], 'route')
        return rc.send_rr(a.session, a.wrap(cip, route), ctx), 'op ' + op['kind'], [op]

    def frame_writes(f):
        """The structured write ops spelled by one complete frame (lenient decode); [] if none."""
        if f.command not in (rc.SEND_RR, rc.SEND_UNIT):
            return []
        try:
            body = lenient_item1(f.data)
            if body is None:
                return []
            return op_from_decoded(rc.dec_request(body))
        except (rc.DecodeError, struct.error, IndexError, KeyError, ValueError, UnicodeError):
            return []

    def strictly_wellformed(f):
        """Does the frame decode with every length/count/size field consistent?"""
        if f.command not in (rc.SEND_RR, rc.SEND_UNIT):
            return True             # carries no request that could write
        try:
            items = rc.dec_send_data(f, strict=True)
            rc.need(len(items) == 2, 'two items')
            body = items[1][1]
            if items[1][0] == 0x00B1:
                body = body[2:]
            rc.dec_request(body, lenient=False)
            return True
        except (rc.DecodeError, struct.error, IndexError, KeyError, ValueError, UnicodeError):
            return False

    def sids_of(ops):
        out = set()
        for op in ops:
            try:
                sid, found = w.model.resolve(op['ref'], tag_service=op['kind'] not in ('gas', 'sas'))
                if sid is not None:
                    out.add(sid)
            except Exception:       # noqa: BLE001
                pass
        return out

    def explain(frames, real_differs, extra=()):
        """Tier 1 (exact): some subset (in order) of the write requests spelled by the newly completed
        frames (a bundle counts member by member) or by the attack frames before mutation, executed with
        the model's semantics, produces the observed state.  Tier 2 (target only) applies when a completed
        frame is NOT well-formed under a strict reading, i.e. the simulator accepted something sloppy: the
        changed tags must then all be ones that the frame's own (leniently read or pre-mutation) write
        requests address -- which values a sloppy frame yields is not judged, a change to any other tag
        still is.  Returns 'exact', 'target' or None; leaves the model at the observed state."""
        base = w.model.snapshot()
        ops = []
        for f in frames:
            ops += frame_writes(f)
        for o in extra:
            if o not in ops:
                ops.append(o)
        if ops:
            if len(ops) <= 10:
                masks = range(1, 1 << len(ops))
            else:
                masks = [(1 << k) - 1 for k in range(1, len(ops) + 1)]       # prefixes only
            for mask in masks:
                w.model.restore(base)
                for b, op in enumerate(ops):
                    if (mask >> b) & 1:
                        try:
                            w.model.apply(op)
                        except Exception:       # noqa: BLE001
                            pass
                if not real_differs():
                    return 'exact'
        w.model.restore(base)
        if frames and not all(strictly_wellformed(f) for f in frames):
            targets = sids_of(ops)
            changed = set(x[0] for x in real_differs())
            if changed and changed <= targets:
                real = w.peek()
                from ref.model import convert
                for sid in changed:
                    t = w.model.stype[sid]
                    if real[sid] is None or len(real[sid]) != len(w.model.store[sid]):
                        return None         # tags are fixed-length arrays: no frame may resize one
                    try:
                        w.model.store[sid] = [convert(t, v) for v in real[sid]]
                    except Exception:       # noqa: BLE001
                        w.model.restore(base)
                        return None
                if not real_differs():
                    return 'target'
                w.model.restore(base)
        return None

    def attacker():
        a = RefSession(w, 'attacker', chunk_mode='whole')
        a.connect()
        a.register()
        w.bind_auto_tags()
        for n in range(nattacks):
            if g.chance(1, 8, 'abortconn'):
                # a peer that completes the handshake and aborts at once: the connection is reset while
                # it still sits in the listen backlog (accept() will hand out a dead socket)
                for _ in range(1 + g.draw(3, 'nabort')):
                    z = RefSession(w, 'abort%d' % n, chunk_mode='whole')
                    z.connect()
                    z.sock.tx.reset()
                    z.sock.close()
                    w.net.fired('RST_BEFORE_ACCEPT')
                w.sched.sleep(0.2)
                probe('after connections reset before accept')
            if a.eof or a.rst or a.sock.closed:
                a = RefSession(w, 'attacker%d' % n, chunk_mode='whole')
                a.connect()
                if g.chance(3, 4, 'rereg'):
                    a.register()
            raw, what, orig_ops = valid_frame(a)
            orig_writes = [o for o in orig_ops if o['kind'] in ('write', 'writefrag', 'sas')]
            if g.chance(1, 6, 'asis'):
                data, how = raw, 'unmutated'
            else:
                data, how = mutate(g, raw)
                if g.chance(1, 5, 'again'):
                    data, how2 = mutate(g, data)
                    how += ' + ' + how2
            stats['kinds'][how.split(' ')[0]] = stats['kinds'].get(how.split(' ')[0], 0) + 1
            w.sched.block(Waiter(cond=lambda: handler_of(a) is not None, deadline=w.sched.now + 30.0,
                                 cond_time=lambda: w.sched.now + 0.05, why='await-accept'))
            th = handler_of(a)
            if th is None:
                w.violation('c08-not-accepted', 'the listener did not accept a new connection within 30 simulated s')
                raise Violation()
            before_calls = th._sim_calls if th is not None else 0
            before = w.model.snapshot()
            if th is not None:
                th._sim_call_cap = th._sim_calls + WORK_A + WORK_B * max(len(data), 1)
            chunks = a.chunks(data) if g.chance(1, 3, 'chunk') else [data]
            try:
                for c in chunks:
                    a.sock.send(c)
            except OSError:
                a.rst = True
                continue
            stats['attacks'] += 1
            w.samples.append({'attack': what, 'mutation': how, 'bytes': len(data)})
            tx = a.sock.tx
            total = tx.written

            def quiescent():
                if th is None or th._sim_state == 'done':
                    return True
                return tx.delivered >= total and not tx.segs and th._sim_state == 'wait' and \
                    th._sim_waiter is not None and th._sim_waiter.why in ('select', 'recv')
            w.sched.block(Waiter(cond=quiescent, deadline=w.sched.now + 60.0, cond_time=lambda: w.sched.now + 0.05, why='quiesce'))
            if not quiescent():
                w.violation('c08-not-quiescent', 'after %s (%s, %d bytes) the handling thread neither waits for input nor ended within 60 simulated s' % (
                    what, how, len(data)), mutation=how.split(' ')[0])
                raise Violation()
            if th is not None:
                th._sim_call_cap = 0
                used = th._sim_calls - before_calls
                stats['max_calls'] = max(stats['max_calls'], used)
                stats['max_calls_per_byte'] = max(stats['max_calls_per_byte'], round(used / max(len(data), 1), 1))
            # drain whatever the server answered
            a.sock.settimeout(0.0)
            try:
                while True:
                    bts = a.sock.recv(65536)
                    if bts == b'':
                        a.eof = True
                        stats['closed'] += 1
                        break
                    stats['replied'] += 1
            except BlockingIOError:
                pass
            except OSError:
                a.rst = True
            # explained change: the delivered byte stream of this connection, cut into complete frames
            a.stream = getattr(a, 'stream', b'') + data
            newframes, rest = rc.split_frames(a.stream)
            a.stream = rest
            differs = lambda: [x for x in w.state_diff() if x[0] != victim_sid]
            d = differs()
            a.orig_acc = getattr(a, 'orig_acc', []) + orig_writes
            if d:
                how_explained = explain(newframes[:6], differs, a.orig_acc)
                if how_explained:
                    stats['explained_' + how_explained] = stats.get('explained_' + how_explained, 0) + 1
                if not how_explained:
                    w.violation('c08-unexplained-change', 'after %s mutated by %s (%s): tags changed %r but the delivered bytes hold no '
                                'complete well-formed write with that effect' % (what, how, data.hex(), d[:3]),
                                mutation=how.split(' ')[0])
                    raise Violation()
                stats['explained_changes'] += 1
            if not rest:
                a.orig_acc = []         # no partial frame is pending on this connection
            if a.stream and g.chance(1, 3, 'hangup'):
                # hang up with a partial frame pending on the server side (FIN or RST); the next attack
                # comes over a new connection, possibly from the same source port
                if g.draw(2, 'hangrst'):
                    a.sock.tx.reset()
                    a.rst = True
                a.close()
                a.eof = True
                w.net.fired('HANGUP_MID_FRAME')
                w.sched.sleep(0.3)
            if g.chance(1, 3, 'probe?'):
                probe('after attack %d (%s, %s)' % (n, what, how))
        probe('at the end')
        flags['done'] = True

    w.spawn(attacker, 'attacker')
    w.spawn(victim, 'victim')
    res = w.run()
    if w.sched.work_cap_hit:
        # re-class the generic liveness violation
        for v in res['violations']:
            if v['cls'] == 'liveness-work_cap':
                v['cls'] = 'c08-unbounded-work'
    if w.sched.uncaught:
        w.violation('c08-exception-escaped', 'an exception left a server thread past its handlers: %r' % (w.sched.uncaught[:3],))
        res['violations'] = w.violations
    res['nontrivial'] = bool(stats['attacks'] >= 3 or res['violations'])
    res['notes'] = stats
    return res


def lenient_item1(data):
    """The second CPF item's data of a SendRRData/SendUnitData payload, tolerating inconsistent
    count and item length fields (clamped to what is there)."""
    if len(data) < 6 + 2 + 4 + 4:
        return None
    off = 8
    t0, l0 = struct.unpack_from('<HH', data, off)
    if t0 == 0x00A1:
        l0 = 4                              # the item type's own size, whatever the length field says
    elif t0 == 0x0000 or off + 4 + l0 + 4 > len(data):
        l0 = 0
    off += 4 + l0
    if off + 4 > len(data):
        return None
    t1, l1 = struct.unpack_from('<HH', data, off)
    body = bytes(data[off + 4:off + 4 + l1])
    if t1 == 0x00B1:
        body = body[2:]         # connected data item: sequence count first
    return body


def merge_victim(cur, old, victim_sid):
    out = {sid: list(v) for sid, v in old.items()}
    out[victim_sid] = list(cur[victim_sid])
    return out
