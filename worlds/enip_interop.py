"""ENIP-interop world (C14): an unmodified pylogix.PLC as a node on a sim-thread, talking to the real
simulator over the simulated network; the array model decides what every call must return.
"""
import struct

from sim import install
from sim.runner import world
from sim.sched import Waiter
from ref import refcodec as rc
from ref.model import STRINGS
from .enip_base import EnipWorld, RefSession, Violation, short, PORT, gen_value, same_value

PYLOGIX_TYPES = ['SINT', 'INT', 'DINT', 'LINT', 'USINT', 'UINT', 'UDINT', 'ULINT', 'REAL', 'LREAL']


def values_equal(tname, got, want):
    if got is None:
        return False
    if not isinstance(got, (list, tuple)):
        got = [got]
    if len(got) != len(want):
        return False
    return all(same_value(tname, a, b) for a, b in zip(got, want))


@world('c14')
def c14(tapes, params):
    w = EnipWorld(tapes, dict(params, short_reads=True))
    g, sch = w.gen, w.sch
    import pylogix
    import pylogix.lgx_comm
    pylogix.lgx_comm.socket = install.SOCK
    params.setdefault('budget', 488)
    w.gen_tags(ntags=g.between(2, 5, 'ntags'), types=PYLOGIX_TYPES + ['BOOL'], maxlen=params.get('maxlen', 1200), shared=False)
    if g.chance(1, 2, 'bigtag'):
        # an array larger than one reply, so that pylogix has to walk fragments
        w.model.add_tag('BigArr', g.choice(PYLOGIX_TYPES, 'bigt'), g.between(260, 1200, 'bigl'))
    # BOOL only as scalars (pylogix treats BOOL arrays as packed DWORDs, which the simulator does not model)
    for t in list(w.model.tags.values()):
        if t.tname == 'BOOL' and t.length != 1:
            sid = t.sid
            w.model.stype[sid] = 'DINT'
            w.model.store[sid] = [0] * t.length
            t.tname = 'DINT'
    w.tag_specs = ['%s=%s[%d]' % (t.name, t.tname, t.length) for t in sorted(w.model.tags.values(), key=lambda t: t.name)]

    def plan(idx, c2s, s2c, peer):
        EnipWorld._conn_plan(w, idx, c2s, s2c, peer)
        # pylogix takes the length field from the first recv(): keep the first 4 bytes together
        s2c.coalesce = False
        if sch.chance(1, 2, 'split?'):
            s2c.cutter = lambda n: sorted(set(4 + sch.draw(max(1, n - 4), 'pc') for _ in range(sch.draw(3, 'npc')))) if n > 5 else ()
        else:
            s2c.cutter = None
    w.net.conn_plan = plan
    w.start_server()
    unique = {'n': 0}
    nops = g.between(4, params.get('max_ops', 25), 'nops')
    stats = {'reads': 0, 'writes': 0, 'multi': 0, 'errors': 0, 'big_reads': 0, 'closed': False}
    tags = sorted(w.model.tags.values(), key=lambda t: t.name)

    def driver():
        w.sched.block(Waiter(cond=lambda: PORT in w.net.listeners, why='await-listen'))
        comm = pylogix.PLC()
        comm.IPAddress = '127.0.0.1'
        comm.Port = PORT
        comm.SocketTimeout = 10.0
        if g.draw(3, 'connsize') == 0:
            comm.ConnectionSize = 504
        # how the controller is reached: default backplane slot 0, another slot, or a routed
        # (multi-hop) connection path through a remote rack -- all are stripped by the simulator
        rk = g.draw(5, 'routek')
        if rk == 0:
            comm.ProcessorSlot = g.choice([1, 3, 15], 'slot')
        elif rk == 1:
            comm.Route = g.choice([[(1, 0), (2, '10.0.0.9'), (1, 0)], [(1, 3), (1, 0)], [(2, '192.168.1.20'), (1, 5)]], 'route')
        stats['route'] = rk
        # pylogix keeps its connected-message sequence counter for the life of the PLC object (across
        # reconnects): a long-lived client is anywhere in the 16-bit range
        comm.conn._sequence_counter = g.choice([1, 1, 0x7FFD, 0xFFFB, 0x8000 + g.draw(0x7F00, 'pseq0')], 'pseqk')
        for n in range(nops):
            try:
                one_call(comm, n)
            except Violation:
                raise
            except Exception as exc:        # noqa: BLE001
                w.violation('c14-client-exception', 'pylogix raised %s: %s at call %d (%r)' % (
                    type(exc).__name__, str(exc)[:200], n, w.samples[-1] if w.samples else None))
                raise Violation()
        finish(comm)

    def one_call(comm, n):
        if True:
            k = g.weighted([(5, 'read'), (4, 'write'), (2, 'multi'), (2, 'unknown'), (1, 'range'), (1, 'big')], 'pk')
            t = g.choice(tags, 'ptag')
            L = t.length
            if k == 'big':
                bigs = [x for x in tags if x.length * rc.tsize(x.tname) > 600]
                if bigs:
                    t = g.choice(bigs, 'btag')
                    L = t.length
                else:
                    k = 'read'
            if k in ('read', 'big'):
                i = g.draw(L, 'ri') if k == 'read' else 0
                cnt = 1 + g.draw(L - i, 'rn') if k == 'read' else L
                name = t.name if (i == 0 and g.draw(2, 'noidx')) else '%s[%d]' % (t.name, i)
                ret = comm.Read(name, cnt)
                want = w.model.store[t.sid][i:i + cnt]
                stats['reads'] += 1
                stats['big_reads'] += 1 if k == 'big' else 0
                w.samples.append({'Read': name, 'count': cnt, 'status': ret.Status})
                if ret.Status != 'Success' or not values_equal(t.tname, ret.Value, want):
                    w.violation('c14-read', 'pylogix Read(%r, %d) -> Status %r Value %r; model %s %r' % (
                        name, cnt, ret.Status, ret.Value if not isinstance(ret.Value, list) else ret.Value[:8], t.tname, want[:8]),
                        ttype=t.tname, big=k == 'big')
            elif k == 'write':
                i = g.draw(L, 'wi')
                cnt = 1 + g.draw(min(L - i, 40), 'wn')
                vals = [gen_value(g, t.tname, unique) for _ in range(cnt)]
                if t.tname == 'REAL':
                    vals = [struct.unpack('<f', struct.pack('<f', v))[0] for v in vals]
                name = t.name if (i == 0 and cnt == 1 and g.draw(2, 'noidx')) else '%s[%d]' % (t.name, i)
                ret = comm.Write(name, vals if cnt > 1 else vals[0])
                stats['writes'] += 1
                w.samples.append({'Write': name, 'values': vals[:6], 'status': ret.Status})
                if ret.Status != 'Success':
                    w.violation('c14-write', 'pylogix Write(%r, %r) -> Status %r' % (name, vals[:8], ret.Status), ttype=t.tname)
                else:
                    from ref.model import convert
                    w.model.store[t.sid][i:i + cnt] = [convert(t.tname, v) for v in vals]
                d = w.state_diff()
                if d:
                    w.violation('c14-state', 'after Write(%r, %r): simulator state differs from model %r' % (name, vals[:6], d[:3]), ttype=t.tname)
                    raise Violation()
            elif k == 'multi':
                sel = [g.choice(tags, 'mt') for _ in range(g.between(2, 5, 'nm'))]
                names = []
                wants = []
                for x in sel:
                    i = g.draw(x.length, 'mi')
                    names.append('%s[%d]' % (x.name, i) if (i or g.draw(2, 'mi0')) else x.name)
                    wants.append((x.tname, w.model.store[x.sid][i]))
                rets = comm.Read(names)
                stats['multi'] += 1
                w.samples.append({'Read': names, 'status': [r.Status for r in rets]})
                for nm, r, (tn, wv) in zip(names, rets, wants):
                    if r.Status != 'Success' or not values_equal(tn, r.Value, [wv]):
                        w.violation('c14-multi-read', 'pylogix Read(%r): %r -> Status %r Value %r; model %r' % (names, nm, r.Status, r.Value, wv), ttype=tn)
            elif k == 'unknown':
                before_idx = getattr(comm.conn.Socket, 'conn_index', None)
                w.samples.append({'Read': 'unknown tag'})
                ret = comm.Read(g.choice(['NoSuchTag', 'Missing[3]', 'nope.tag'], 'ut'))
                stats['errors'] += 1
                w.samples[-1]['status'] = ret.Status
                if ret.Status == 'Success' or ret.Value is not None:
                    w.violation('c14-unknown-tag', 'pylogix Read of an unknown tag -> Status %r Value %r' % (ret.Status, ret.Value))
                # an unknown tag is a CIP-level error on a connected session: the session must survive it
                srv_side = w.net.conns[before_idx][1] if before_idx is not None else None
                if before_idx is not None and (not comm.conn.SocketConnected or srv_side.closed or
                                               getattr(comm.conn.Socket, 'conn_index', None) != before_idx):
                    w.violation('c14-session-dropped', 'after reading an unknown tag (Status %r) the connected session was dropped' % (ret.Status,))
            else:
                name = '%s[%d]' % (t.name, L + g.draw(3, 'over'))
                ret = comm.Read(name, 1)
                stats['errors'] += 1
                w.samples.append({'Read': name, 'status': ret.Status})
                if ret.Status == 'Success' or ret.Value is not None:
                    w.violation('c14-out-of-range', 'pylogix Read(%r) beyond the %d-element tag -> Status %r Value %r' % (name, L, ret.Status, ret.Value))
    def finish(comm):
        # clean close: Forward Close answered, Unregister not answered, server side cleaned up
        peer = comm.conn.Socket.getsockname() if hasattr(comm.conn.Socket, 'getsockname') else None
        idx = getattr(comm.conn.Socket, 'conn_index', None)
        comm.Close()
        stats['closed'] = True
        w.sched.sleep(1.0)
        if idx is not None:
            c, srv = w.net.conns[idx]
            frames, rest = rc.split_frames(bytes(c.rx.data))
            sent, _ = rc.split_frames(bytes(c.tx.data))
            nclose = sum(1 for f in sent if f.command == rc.SEND_RR and b'\x4e\x02\x20\x06\x24\x01' in f.data)
            nunreg = sum(1 for f in sent if f.command == rc.UNREGISTER)
            if nclose and not any(f.command == rc.SEND_RR and f.status == 0 and b'\xce\x00\x00\x00' in f.data for f in frames):
                w.violation('c14-forward-close', 'pylogix sent Forward Close but no successful Forward Close reply came back')
            if len(frames) != len([f for f in sent if f.command != rc.UNREGISTER]):
                w.violation('c14-reply-count', '%d frames from pylogix expecting replies, %d reply frames (Unregister must not be answered)' % (
                    len([f for f in sent if f.command != rc.UNREGISTER]), len(frames)))
            fw = w.m['device'].Connection_Manager.forwards
            left = [k2 for k2 in fw if peer and k2[:2] == tuple(peer)]
            if left:
                w.violation('c14-forwards-leak', 'after Close() the Connection Manager still holds %r for the closed peer' % (left,))
            th = [t2 for t2 in w.sched.threads if getattr(getattr(t2, 'conn', None), 'conn_index', None) == idx]
            if th and th[0]._sim_state != 'done':
                w.violation('c14-server-thread-alive', 'the connection thread is still %s one simulated second after Close()' % th[0]._sim_state)
        if w.sched.uncaught:
            w.violation('c14-server-exception', 'exception escaped a server thread: %r' % (w.sched.uncaught[:2],))

    def intruder():
        # other clients from the same host come and go, some without saying goodbye
        for j in range(g.between(1, 3, 'nintr')):
            w.sched.sleep(0.05 * (1 + sch.draw(40, 'idelay')))
            s = RefSession(w, 'intruder%d' % j)
            s.connect()
            s.register()
            if g.draw(2, 'ifo'):
                s.forward_open(large=bool(g.draw(2, 'ilg')))
            w.sched.sleep(0.01 * sch.draw(30, 'ilife'))
            if g.draw(3, 'ibye') == 0 and s.conn_id is not None:
                s.rr(rc.req_forward_close(s.conn_serial), route='bare')
            s.close()
            w.net.fired('PEER_VANISHED')

    drv = w.spawn(driver, 'pylogix')
    w.spawn(intruder, 'intruder')
    res = w.run(stop_when=lambda: drv._sim_state == 'done')
    res['nontrivial'] = bool((stats['reads'] + stats['writes'] + stats['multi'] >= 3 and stats['closed']) or res['violations'])
    res['notes'] = stats
    return res
