"""Protocol-level ENIP worlds driven by reference sessions.

  c06  exactly one matching reply per request, in order (pipelining ledger)
  c07  Multiple Service Packet == its members one by one (twin execution)
  c15  route-path filtering follows the configured personality
  c02  framing independent of segmentation; incomplete frame has no effect
"""
import struct

from sim.runner import world
from sim.sched import Waiter
from ref import refcodec as rc
from ref.model import STRINGS, elem_size, Expected
from .enip_base import (EnipWorld, RefSession, Violation, gen_op, op_request, check_reply, short,
                        FIXED_TYPES, ALL_TYPES, SERVICE, PORT)


# ---------------------------------------------------------------------------- C06
class Item(object):
    """One frame a session sends, with what the ledger expects back."""
    __slots__ = ('raw', 'kind', 'ctx', 'expects', 'ends', 'op', 'exp', 'members', 'service', 'connected', 'seqno')

    def __init__(self, raw, kind, ctx, expects=True, ends=False, op=None, exp=None, members=None, service=None,
                 connected=False, seqno=None):
        self.raw, self.kind, self.ctx, self.expects, self.ends = raw, kind, ctx, expects, ends
        self.op, self.exp, self.members, self.service, self.connected, self.seqno = op, exp, members, service, connected, seqno


def weird_context(g, n):
    k = g.draw(5, 'ctxk')
    if k == 0:
        return b'\x00' * 8
    if k == 1:
        return b'\xff' * 8
    if k == 2:
        return struct.pack('<Q', n)
    if k == 3:
        return bytes([(n * 37 + i * 11) & 0xFF for i in range(8)])
    return struct.pack('>Q', (n << 40) | 0xFFFF)


def member_expect(model, op, in_bundle=True):
    exp = model.apply(op)
    if exp.unknown:
        if op['kind'] in ('gas', 'sas'):
            return Expected(any_error=True)
        return Expected(status=0x05, ext=(0,))
    return exp


def check_members(w, who, payload, members, cls='bundle-member-mismatch'):
    """payload: the Multiple Service Packet reply payload; members: [(op, exp)]"""
    try:
        parts, offs = rc.dec_multiple_reply(payload, strict=True)
    except rc.DecodeError as exc:
        w.violation('bundle-framing', '%s: %s' % (who, exc))
        return False
    if len(parts) != len(members):
        w.violation('bundle-framing', '%s: %d member replies for %d requests' % (who, len(parts), len(members)))
        return False
    o = 2 + 2 * len(parts)
    for i, p in enumerate(parts):
        if offs[i] != o:
            w.violation('bundle-framing', '%s: offset[%d]=%d, want %d' % (who, i, offs[i], o))
            return False
        o += len(p)
    ok = True
    for i, (p, (op, exp)) in enumerate(zip(parts, members)):
        bad = check_reply(op, exp, p)
        if bad:
            w.violation(cls, '%s: member %d %s -> %s' % (who, i, short(op), bad), op=op['kind'])
            ok = False
    return ok


@world('c06')
def c06(tapes, params):
    w = EnipWorld(tapes, params)
    g = w.gen
    nsess = g.between(1, 4, 'nsess')
    w.gen_tags(ntags=nsess + g.draw(2, 'xtags'), maxlen=params.get('maxlen', 60), shared=True)
    w.start_server()
    tags = sorted(w.model.tags.values(), key=lambda t: t.name)
    # each session writes only its own tag(s): the per-session expectation is then schedule independent
    own = {i: [t for j, t in enumerate(tags) if j % nsess == i and
               not any(u.sid == t.sid for u in tags if u is not t)] for i in range(nsess)}
    unique = {'n': 0}
    stats = {'frames': 0, 'answered': 0, 'ended_by_error': 0, 'unregistered': 0, 'maxdepth': 0}
    ready = {'n': 0}
    # slow readers: in some runs the server->client direction has a small socket buffer, and the client
    # pauses before it starts reading the replies of a pipelined batch (the server must simply wait)
    base_plan = w.net.conn_plan
    small_buffers = w.sch.chance(1, 3, 'smallbuf')

    def plan(idx, c2s, s2c, peer):
        base_plan(idx, c2s, s2c, peer)
        if small_buffers:
            s2c.capacity = w.sch.choice([256, 1024, 4096], 'cap')
    w.net.conn_plan = plan

    def build(s, i, n, nframes):
        """The next frame of session i as an Item."""
        ctx = weird_context(g, (s.index << 16) | n)
        mine = own[i]
        last = n == nframes - 1
        kinds = [(6, 'op'), (3, 'bundle'), (2, 'list'), (1, 'unsupported'), (1, 'unroutable')]
        if s.conn_id is None and n > 0 and not s.fo_tried:
            kinds.append((2, 'fwdopen'))
        if s.conn_id is not None:
            kinds += [(6, 'unit'), (1, 'fwdclose')]
        if last and g.chance(1, 2, 'unreg?'):
            kind = 'unregister'
        else:
            kind = g.weighted(kinds, 'fkind')
        if kind in ('op', 'unit', 'bundle') and not mine:
            kind = 'list'
        if kind == 'list':
            cmd = g.choice([rc.LIST_SERVICES, rc.LIST_IDENTITY, rc.LIST_INTERFACES], 'lcmd')
            return Item(rc.encap(cmd, g.choice([0, s.session], 'lsess'), b'', ctx), 'list', ctx, service=cmd)
        if kind == 'unregister':
            return Item(rc.unregister(s.session, ctx), 'unregister', ctx, expects=False, ends=True)
        if kind == 'unsupported':
            cip = struct.pack('<B', g.choice([0x4B, 0x33, 0x7E], 'usvc')) + rc.epath([('class', 2), ('instance', 1)])
            return Item(rc.send_rr(s.session, s.wrap(cip, 'none'), ctx), 'unsupported', ctx, ends=True)
        if kind == 'unroutable':
            k = g.draw(2, 'urk')
            if k == 0:
                cip = rc.req_read_tag(rc.tag_path(name='NoSuchTag'), 1)
            else:
                cip = rc.req_get_attr_single([('class', 0x77), ('instance', 3), ('attribute', 1)])
            return Item(rc.send_rr(s.session, s.wrap(cip, 'none'), ctx), 'unroutable', ctx, ends=True)
        if kind == 'fwdopen':
            s.fo_tried = True
            s.conn_serial = 0x200 + s.index
            s.o_t = 0x30000000 + s.index * 16 + 2
            large = bool(g.draw(2, 'large'))
            cip = rc.req_forward_open(s.conn_serial, o_t_id=s.o_t, t_o_id=s.o_t - 1, large=large)
            return Item(rc.send_rr(s.session, cip, ctx), 'fwdopen', ctx, service=rc.FWD_OPEN_LARGE if large else rc.FWD_OPEN)
        if kind == 'fwdclose':
            cip = rc.req_forward_close(s.conn_serial)
            return Item(rc.send_rr(s.session, cip, ctx), 'fwdclose', ctx, service=rc.FWD_CLOSE)
        tag = g.choice(mine, 'mytag')
        if kind == 'bundle':
            nm = g.between(1, 8, 'nmem')
            members = []
            for _ in range(nm):
                op = gen_op(g, w.model, unique, boundary=2, cross=1, fit=True, tag=tag,
                            kinds=['read', 'write', 'readfrag', 'writefrag', 'gas'])
                members.append((op, member_expect(w.model, op)))
            cip = rc.req_multiple([op_request(op) for op, _ in members])
            return Item(rc.send_rr(s.session, s.wrap(cip, 'none'), ctx), 'bundle', ctx, members=members, service=rc.MULTIPLE)
        op = gen_op(g, w.model, unique, boundary=2, cross=1, fit=True, tag=tag)
        exp = member_expect(w.model, op)
        cip = op_request(op)
        if kind == 'unit':
            s.seq_count = (s.seq_count + 1) & 0xFFFF
            return Item(rc.send_unit(s.session, s.conn_id, s.seq_count, cip, ctx), 'unit', ctx, op=op, exp=exp,
                        service=SERVICE[op['kind']], connected=True, seqno=s.seq_count)
        route = 'none' if cip[:1] == b'\x52' else g.choice(['none', 'bare', [('port', 1, 0)]], 'route')
        return Item(rc.send_rr(s.session, s.wrap(cip, route), ctx), 'op', ctx, op=op, exp=exp, service=SERVICE[op['kind']])

    def check_item(s, it, f):
        """The frame f answers item it."""
        who = '%s frame %r' % (s.name, it.kind)
        want_cmd = struct.unpack_from('<H', it.raw, 0)[0]
        if f.command != want_cmd or f.context != it.ctx:
            w.violation('ledger-mismatch', '%s: reply command 0x%04x context %s; request command 0x%04x context %s' % (
                who, f.command, f.context.hex(), want_cmd, it.ctx.hex()), kind=it.kind)
            raise Violation()
        req_sess = struct.unpack_from('<I', it.raw, 4)[0]
        if f.session != req_sess:
            w.violation('ledger-session', '%s: reply session 0x%x, request session 0x%x' % (who, f.session, req_sess), kind=it.kind)
            raise Violation()
        if it.ends:
            if f.status == 0:
                w.violation('ledger-status', '%s: unsupported/unroutable request answered with encapsulation status 0' % who, kind=it.kind)
            return
        if f.status != 0:
            w.violation('ledger-status', '%s: encapsulation status 0x%x for a supported request' % (who, f.status), kind=it.kind)
            raise Violation()
        if it.kind == 'list':
            try:
                items, off = rc.dec_cpf(f.data, 0)
                rc.need(off == len(f.data), 'trailing bytes in List* reply')
            except rc.DecodeError as exc:
                w.violation('reply-undecodable', '%s: %s' % (who, exc), kind=it.kind)
            return
        try:
            items = rc.dec_send_data(f)
            if it.connected:
                rc.need(len(items) == 2 and items[0][0] == 0xA1 and items[1][0] == 0xB1, 'connected reply items %r' % ([t for t, _ in items],))
                rc.need(len(items[1][1]) >= 2 and struct.unpack_from('<H', items[1][1], 0)[0] == it.seqno, 'sequence count not echoed')
                cip = items[1][1][2:]
            else:
                rc.need(len(items) == 2 and items[0] == (0, b'') and items[1][0] == 0xB2,
                        'SendRRData reply must be null address item + one data item, got %r' % ([(t, len(d)) for t, d in items],))
                cip = items[1][1]
            r = rc.dec_reply(cip)
        except rc.DecodeError as exc:
            w.violation('reply-undecodable', '%s: %s' % (who, exc), kind=it.kind)
            return
        if r.service != (it.service | 0x80):
            w.violation('ledger-service', '%s: reply service 0x%02x for request service 0x%02x' % (who, r.service, it.service), kind=it.kind)
            return
        if it.kind in ('op', 'unit'):
            bad = check_reply(it.op, it.exp, cip)
            if bad:
                w.violation('reply-mismatch', '%s: %s -> %s' % (who, short(it.op), bad), kind=it.kind)
        elif it.kind == 'bundle':
            if r.status != 0:
                w.violation('bundle-status', '%s: bundle status 0x%02x' % (who, r.status), kind=it.kind)
            else:
                check_members(w, who, r.payload, it.members)
        elif it.kind == 'fwdopen':
            if r.status == 0:
                info = rc.dec_forward_open_reply(r.payload)
                s.conn_id = info['o_t']
        elif it.kind == 'fwdclose':
            if r.status == 0:
                s.conn_id = None

    def session_main(i):
        s = RefSession(w, 's%d' % i)
        s.fo_tried = False
        s.connect()
        s.register()
        ready['n'] += 1
        w.sched.block(Waiter(cond=lambda: ready['n'] >= nsess, why='barrier'))
        if i == 0:
            w.bind_auto_tags()
        nframes = g.between(3, params.get('max_frames', 30), 'nframes')
        n = 0
        alive = True
        while n < nframes and alive:
            depth = g.weighted([(3, 1), (3, g.between(2, 6, 'd')), (1, g.between(7, 32, 'dd'))], 'depth')
            depth = min(depth, nframes - n)
            batch = []
            for _ in range(depth):
                it = build(s, i, n, nframes)
                n += 1
                batch.append(it)
                if it.kind in ('fwdopen', 'fwdclose', 'unregister') or it.ends:
                    break               # what follows depends on its outcome
            stats['maxdepth'] = max(stats['maxdepth'], len(batch))
            # write the whole batch before reading anything; optionally coalesce frames into one send
            if len(batch) > 1 and g.chance(1, 2, 'coalesce'):
                s.send(b''.join(it.raw for it in batch))
                for it in batch:
                    s.sent_frames.append((w.sched.seq, it.raw))
            else:
                for it in batch:
                    s.send_frame(it.raw)
            stats['frames'] += len(batch)
            if small_buffers and len(batch) > 1 and w.sch.chance(1, 2, 'slowreader'):
                w.sched.sleep(w.sch.choice([0.05, 0.5, 3.0], 'readpause'))
            for it in batch:
                if not it.expects:
                    continue
                f = s.recv_frame()
                if f is None:
                    w.violation('ledger-missing', '%s: no reply to frame %r (%s)' % (
                        s.name, it.kind, 'EOF' if s.eof else 'reset' if s.rst else 'timeout'), kind=it.kind)
                    raise Violation()
                stats['answered'] += 1
                check_item(s, it, f)
                if it.ends:
                    stats['ended_by_error'] += 1
                    alive = False
                    break
            if batch and batch[-1].kind == 'unregister':
                stats['unregistered'] += 1
                alive = False
        # quiescence: nothing further may arrive; if the session was ended the server must close it
        f = s.recv_frame(timeout=2.0 if alive else 30.0)
        if f is not None:
            w.violation('ledger-extra', '%s: extra frame %r after all requests were answered' % (s.name, f))
        elif not alive and not (s.eof or s.rst):
            w.violation('ledger-no-close', '%s: server did not close the connection after the session ended' % s.name)
        s.close()

    for i in range(nsess):
        w.spawn(lambda i=i: session_main(i), 's%d' % i)
    res = w.run()
    res['nontrivial'] = bool(stats['answered'] >= 3 or res['violations'])
    res['notes'] = stats
    return res


# ---------------------------------------------------------------------------- C07
def gen_missing_attr(g, model):
    """A request to an attribute that does not exist on an object that does."""
    tags = sorted([t for t in model.tags.values() if t.addr is not None], key=lambda t: t.name)
    if not tags:
        return None
    t = g.choice(tags, 'mat')
    c, i, a = t.addr
    free = [x for x in (7, 9, 77, 301) if (c, i, x) not in model.addr][0]
    kind = g.choice(['read', 'write', 'gas', 'sas'], 'mak')
    return {'kind': kind, 'ref': ('addr', (c, i, free)), 'index': None, 'elements': 1, 'tname': t.tname,
            'values': [0] if t.tname not in STRINGS else [''], 'data': b'\x00\x00'}


@world('c07')
def c07(tapes, params):
    g = tapes.gen
    nnoise = g.weighted([(3, 0), (2, 1), (1, 2), (1, 3)], 'nnoise') if params.get('conc', True) else 0
    w = EnipWorld(tapes, params, preempt=nnoise > 0)
    w.gen_tags(ntags=g.between(1, 4, 'ntags') + nnoise, maxlen=params.get('maxlen', 80))
    w.start_server()
    unique = {'n': 0}
    tags = sorted(w.model.tags.values(), key=lambda t: t.name)
    # noise sessions get their own storages (no alias with the twin's tags)
    sids = []
    for t in tags:
        if t.sid not in sids:
            sids.append(t.sid)
    noise_sids = sids[len(sids) - min(nnoise, max(0, len(sids) - 1)):] if nnoise else []
    twin_tags = [t for t in tags if t.sid not in noise_sids]
    noise_tags = [[t for t in tags if t.sid == sid] for sid in noise_sids]
    stats = {'members': 0, 'bundles': 0, 'failing_members': 0, 'noise_bundles': 0}
    ready = {'n': 0, 'twin_done': False}
    nparties = 1 + len(noise_tags)

    def gen_member():
        k = g.draw(10, 'memk')
        if k == 0:
            op = gen_missing_attr(g, w.model)
            if op is not None:
                return op
        tag = g.choice(twin_tags, 'mtag')
        return gen_op(g, w.model, unique, boundary=3, cross=2, fit=True, tag=tag)

    def twin():
        s = RefSession(w, 'twin')
        s.connect()
        s.register()
        ready['n'] += 1
        w.sched.block(Waiter(cond=lambda: ready['n'] >= nparties, why='barrier'))
        w.bind_auto_tags()
        ntw = g.between(1, params.get('max_twins', 4), 'ntwins')
        for _ in range(ntw):
            # pre-state: a few accepted writes
            for _ in range(g.draw(4, 'npre')):
                op = gen_op(g, w.model, unique, kinds=['write', 'writefrag'], fit=True, tag=g.choice(twin_tags, 'ptag'))
                exp = w.model.apply(op)
                f, rep = s.rr(op_request(op))
                if rep is None:
                    w.violation('no-reply', 'pre-state write %s lost its session' % (short(op),))
                    raise Violation()
            s0_model = w.model.snapshot()
            s0_real = w.peek()
            members = [gen_member() for _ in range(g.between(1, 12, 'nmem'))]
            if g.chance(1, 3, 'reread'):
                # the same read twice in one packet with a modification of that tag in between (by any
                # of the write services): the second reply must show it
                reads = [m_ for m_ in members if m_['kind'] in ('read', 'readfrag', 'gas')]
                if reads:
                    rd = dict(g.choice(reads, 'rrd'))
                    ttag = None
                    if rd['ref'][0] == 'name':
                        ttag = w.model.tags.get(rd['ref'][1].lower())
                    else:
                        cands = [t for t in twin_tags if t.addr is not None and t.addr[:2] == tuple(rd['ref'][1][:2])
                                 and (rd['ref'][1][2] in (None, t.addr[2]) or t.addr[2] == rd['ref'][1][2])]
                        ttag = cands[0] if cands else None
                    if ttag is not None and ttag in twin_tags:
                        kinds = ['write', 'writefrag'] + (['sas', 'sas'] if ttag.addr is not None else [])
                        mod = gen_op(g, w.model, unique, kinds=kinds, fit=True, tag=ttag)
                        members = members[:11] + [dict(rd), mod, dict(rd)]
            # --- as a bundle
            exps = [member_expect(w.model, op) for op in members]
            cip = rc.req_multiple([op_request(op) for op in members])
            f, rep = s.rr(cip, route=g.choice(['none', 'bare', [('port', 1, 0)]], 'route'))
            if rep is None:
                w.violation('bundle-no-reply', 'bundle of %d members got %s' % (
                    len(members), 'no frame' if f is None else 'encapsulation status 0x%x' % f.status),
                    kinds=sorted(set(op['kind'] for op in members)))
                raise Violation()
            stats['bundles'] += 1
            stats['members'] += len(members)
            stats['failing_members'] += sum(1 for e in exps if not e.ok())
            r = rc.dec_reply(rep)
            if r.service != (rc.MULTIPLE | 0x80) or r.status != 0:
                w.violation('bundle-status', 'bundle reply service 0x%02x status 0x%02x ext %s' % (r.service, r.status, r.ext))
                raise Violation()
            ok = check_members(w, 'bundle', r.payload, list(zip(members, exps)))
            try:
                rb, _ = rc.dec_multiple_reply(r.payload)
            except rc.DecodeError:
                raise Violation()
            sb_model = w.model.snapshot()
            d = state_diff_twin(w, twin_tags)
            if d:
                w.violation('bundle-state', 'state after bundle differs from model: %r' % (d[:4],))
            sb_real = {sid: v for sid, v in w.peek().items() if sid not in noise_sids}
            # --- restore S0 (harness privilege), then one by one
            w.poke({sid: v for sid, v in s0_real.items() if sid not in noise_sids} if noise_sids else s0_real) \
                if not noise_sids else poke_some(w, s0_real, noise_sids)
            w.model.restore(merge_keep(w.model.snapshot(), s0_model, noise_sids))
            rs = []
            for op in members:
                exp1 = member_expect(w.model, op)
                f, rep1 = s.rr(op_request(op))
                if rep1 is None:
                    w.violation('single-no-reply', 'member %s alone got %s; inside the bundle it was answered' % (
                        short(op), 'no frame' if f is None else 'encapsulation status 0x%x' % f.status), op=op['kind'])
                    raise Violation()
                rs.append(rep1)
            for i, (a, b) in enumerate(zip(rb, rs)):
                if a != b:
                    w.violation('bundle-vs-single', 'member %d %s: in bundle %s, alone %s' % (
                        i, short(members[i]), a.hex()[:80], b.hex()[:80]), op=members[i]['kind'])
            ss_real = {sid: v for sid, v in w.peek().items() if sid not in noise_sids}
            if repr(ss_real) != repr(sb_real):
                w.violation('bundle-vs-single-state', 'tag state after the bundle differs from state after the single requests')
            w.samples.append({'bundle': [short(op) for op in members][:6], 'n': len(members),
                              'failing': sum(1 for e in exps if not e.ok())})
        ready['twin_done'] = True
        s.close()

    def noise(i):
        s = RefSession(w, 'noise%d' % i)
        s.connect()
        s.register()
        ready['n'] += 1
        w.sched.block(Waiter(cond=lambda: ready['n'] >= nparties, why='barrier'))
        mine = noise_tags[i]
        n = 0
        while not ready['twin_done'] and n < 10:
            n += 1
            members = []
            for _ in range(g.between(1, 5, 'nn')):
                op = gen_op(g, w.model, unique, boundary=1, fit=True, tag=g.choice(mine, 'ntag'), allow_addr=False,
                            kinds=['read', 'write', 'readfrag', 'writefrag'])
                members.append((op, member_expect(w.model, op)))
            cip = rc.req_multiple([op_request(op) for op, _ in members])
            f, rep = s.rr(cip)
            if rep is None:
                w.violation('noise-no-reply', 'noise bundle lost its session')
                raise Violation()
            r = rc.dec_reply(rep)
            if r.status != 0:
                w.violation('bundle-status', 'noise bundle status 0x%02x' % r.status)
                raise Violation()
            check_members(w, s.name, r.payload, members, cls='noise-member-mismatch')
            stats['noise_bundles'] += 1
        s.close()

    w.spawn(twin, 'twin')
    for i in range(len(noise_tags)):
        w.spawn(lambda i=i: noise(i), 'noise%d' % i)
    res = w.run()
    res['nontrivial'] = bool(stats['members'] >= 2 or res['violations'])
    res['notes'] = stats
    return res


def state_diff_twin(w, twin_tags):
    sids = set(t.sid for t in twin_tags)
    return [d for d in w.state_diff() if d[0] in sids]


def poke_some(w, snap, skip):
    lookup = w.m['device'].lookup
    done = set()
    for addr, sid in w.model.addr.items():
        if sid in done or sid in skip:
            continue
        done.add(sid)
        att = lookup(*addr)
        vals = snap[sid]
        if att.scalar:
            att.default = type(att.default)(vals[0])
        else:
            att.default[:] = list(vals)


def merge_keep(cur, old, keep_sids):
    out = {sid: list(v) for sid, v in old.items()}
    for sid in keep_sids:
        out[sid] = list(cur[sid])
    return out


# ---------------------------------------------------------------------------- C15
def gen_personality(g):
    """-> (kind, argv, UCMM route_path for a subclass or None, configured segments as [(port, link)])"""
    k = g.draw(7, 'pers')
    if k == 0:
        return 'none', [], None, None
    if k == 1:
        # a simple (non-routing) device: -S, or the documented --route-path spellings for "none"
        form = g.choice([['--simple'], ['-S'], ['--route-path', '0'], ['--route-path', 'false'], ['--route-path', '[]'],
                         ['--route-path', '0', '--simple']], 'simpleform')
        return 'simple', form, None, []
    port = g.choice([1, 2, 3, 14, 15, 300], 'cport')
    link = g.choice([0, 1, 5, 255, '1.2.3.4', '10.0.0.7', '192.168.100.200'], 'clink')
    if k == 2 and isinstance(link, int):
        return 'route', ['--route-path', '%d/%d' % (port, link)], None, [(port, link)]
    if k == 3:
        import json as _json
        return 'route', ['--route-path', _json.dumps([{'port': port, 'link': link}])], None, [(port, link)]
    if k == 4 and not isinstance(link, int):
        return 'route', ['--route-path', '%d/%s' % (port, link)], None, [(port, link)]
    if k == 5:
        p2 = g.choice([1, 2, 20], 'cport2')
        l2 = g.choice([0, 3, '1.2.3.4'], 'clink2')
        return 'route-multi', [], [{'port': port, 'link': link}, {'port': p2, 'link': l2}], [(port, link), (p2, l2)]
    return 'route', ['--route-path', '[{"port": %d, "link": %s}]' % (port, ('"%s"' % link) if not isinstance(link, int) else link)], \
        None, [(port, link)]


def gen_request_route(g, conf):
    """A request route: 'bare', 'none' (empty route path) or segments; biased around the configured one."""
    k = g.draw(8, 'rr')
    if k == 0:
        return 'bare'
    if k == 1:
        return 'none'
    base = list(conf) if conf else [(1, 0)]
    if k in (2, 3):
        return base
    p, l = base[0]
    if k == 4:
        return [(p + 1 if p < 14 else 1, l)] + base[1:]
    if k == 5:
        return [(p, (l + 1) % 256 if isinstance(l, int) else l + '9')] + base[1:]
    if k == 6:
        # other link kind: an address link instead of a number (also one that *spells* the number),
        # a number instead of an address
        return [(p, g.choice(['1.2.3.4', str(l)], 'lkind') if isinstance(l, int) else 7)] + base[1:]
    return base + [(1, 1)] if g.draw(2, 'longer') else (base[:-1] if len(base) > 1 else [])


def accepts(kind, conf, route):
    if kind == 'none':
        return True
    empty = route in ('bare', 'none') or route == []
    if kind == 'simple':
        return empty
    return empty or list(route) == list(conf)


@world('c15')
def c15(tapes, params):
    w = EnipWorld(tapes, params)
    g = w.gen
    kind, argv, ucmm_route, conf = gen_personality(g)
    w.gen_tags(ntags=g.between(1, 3, 'ntags'), maxlen=params.get('maxlen', 40))
    ucls = None
    if ucmm_route is not None:
        class UCMM(w.m['ucmm'].UCMM):
            route_path = ucmm_route
        ucls = UCMM
    # a configuration file may carry a [UCMM] Route Path as well; what the command line (or the UCMM
    # class) says wins, the file only fills in when nothing was said.  (The file's content is put into
    # the simulator's config loader directly, as if it had been read: no files are written.)
    if g.chance(1, 4, 'cfgfile'):
        cp, cl = g.choice([(1, 0), (1, 5), (2, 3)], 'cfgroute')
        w.m['device'].Object.config_loader.read_string('[UCMM]\nRoute Path = %d/%d\n' % (cp, cl))
        if kind == 'none':
            kind, conf = 'route', [(cp, cl)]
        argv = list(argv)
        w.notes['config_file_route'] = '%d/%d' % (cp, cl)
    w.start_server(extra_argv=argv, UCMM_class=ucls)
    unique = {'n': 0}
    stats = {'accepted': 0, 'refused': 0}
    nreq = g.between(4, params.get('max_ops', 24), 'nreq')
    w.notes['personality'] = [kind, argv, conf]

    def driver():
        s = RefSession(w, 's0')
        s.connect()
        s.register()
        w.bind_auto_tags()
        for n in range(nreq):
            route = gen_request_route(g, conf)
            bundle = g.chance(1, 4, 'bundle?')
            if bundle:
                ops = [gen_op(g, w.model, unique, fit=True, kinds=['read', 'write', 'readfrag', 'writefrag'])
                       for _ in range(g.between(1, 4, 'nm'))]
                cip = rc.req_multiple([op_request(op) for op in ops])
            else:
                ops = [gen_op(g, w.model, unique, fit=True)]
                cip = op_request(ops[0])
            if route == 'bare' and cip[:1] == b'\x52':
                route = 'none'
            ok = accepts(kind, conf, route)
            wire_route = route if route in ('bare', 'none') else [('port', p, l) for p, l in route]
            w.samples.append({'personality': kind, 'conf': conf, 'route': route, 'accept': ok, 'ops': [short(o) for o in ops][:3]})
            before = w.model.snapshot()
            f, rep = s.rr(cip, route=wire_route)
            if ok:
                stats['accepted'] += 1
                if rep is None:
                    w.violation('c15-wrongly-refused', 'personality %s %r: request with route %r got %s' % (
                        kind, conf, route, 'no frame' if f is None else 'encapsulation status 0x%x' % f.status),
                        personality=kind, route=route_class(conf, route))
                    raise Violation()
                if bundle:
                    members = [(op, member_expect(w.model, op)) for op in ops]
                    r = rc.dec_reply(rep)
                    if r.status != 0:
                        w.violation('bundle-status', 'bundle status 0x%02x' % r.status)
                    else:
                        check_members(w, 's0', r.payload, members)
                else:
                    exp = member_expect(w.model, ops[0])
                    bad = check_reply(ops[0], exp, rep)
                    if bad:
                        w.violation('reply-mismatch', '%s -> %s' % (short(ops[0]), bad), op=ops[0]['kind'])
            else:
                stats['refused'] += 1
                if rep is not None:
                    w.violation('c15-wrongly-accepted', 'personality %s %r: request with route %r was answered: %r' % (
                        kind, conf, route, rc.dec_reply(rep)), personality=kind, route=route_class(conf, route))
                elif f is None:
                    w.violation('c15-no-error-frame', 'personality %s %r: refused request with route %r got no frame at all' % (
                        kind, conf, route), personality=kind)
                    raise Violation()
            d = w.state_diff()
            if d:
                w.violation('c15-state', 'personality %s %r route %r (%s): state differs from model %r' % (
                    kind, conf, route, 'accept' if ok else 'refuse', d[:3]), personality=kind, accept=ok)
                raise Violation()
            if f is None or f.status != 0:
                # the simulator ends a session after an encapsulation error
                s.close()
                s = RefSession(w, 's%d' % (n + 1))
                s.connect()
                s.register()
        s.close()
    w.spawn(driver, 'driver')
    res = w.run()
    res['nontrivial'] = bool((stats['accepted'] + stats['refused'] >= 3) or res['violations'])
    res['notes'] = dict(stats, personality=kind)
    return res


def route_class(conf, route):
    if route in ('bare', 'none'):
        return route
    if conf and list(route) == list(conf):
        return 'equal'
    if conf and len(route) != len(conf):
        return 'length'
    return 'differs'


# ---------------------------------------------------------------------------- C02
def mask_session(raw):
    """Reply frame bytes with the session handle zeroed."""
    return raw[:4] + b'\0\0\0\0' + raw[8:]


def build_stream(w, g, s, unique, nframes, tags):
    """Frames (as Items) for session s, to be sent back to back.  Model is applied in order."""
    items = []
    for n in range(nframes):
        ctx = struct.pack('<HHI', 0xC02, s.index & 0xFFFF, n + 1)
        k = g.weighted([(5, 'write'), (3, 'read'), (2, 'bundle'), (1, 'list')], 'fk')
        if k == 'list':
            cmd = g.choice([rc.LIST_SERVICES, rc.LIST_IDENTITY, rc.LIST_INTERFACES], 'lcmd')
            items.append(Item(rc.encap(cmd, s.session, b'', ctx), 'list', ctx, service=cmd))
            continue
        tag = g.choice(tags, 'tag')
        if k == 'bundle':
            members = []
            for _ in range(g.between(1, 4, 'nm')):
                op = gen_op(g, w.model, unique, fit=True, tag=tag, kinds=['read', 'write', 'writefrag', 'readfrag'])
                members.append((op, None))
            cip = rc.req_multiple([op_request(op) for op, _ in members])
            items.append(Item(rc.send_rr(s.session, s.wrap(cip, 'none'), ctx), 'bundle', ctx, members=members, service=rc.MULTIPLE))
            continue
        op = gen_op(g, w.model, unique, fit=True, tag=tag,
                    kinds=['write', 'writefrag', 'sas'] if k == 'write' else ['read', 'readfrag', 'gas'])
        cip = op_request(op)
        route = 'none' if cip[:1] == b'\x52' else g.choice(['none', 'bare'], 'route')
        items.append(Item(rc.send_rr(s.session, s.wrap(cip, route), ctx), 'op', ctx, op=op, service=SERVICE[op['kind']]))
    return items


def apply_items(w, items):
    """Apply the items to the model in order, filling in the expectations."""
    for it in items:
        if it.kind == 'op':
            it.exp = member_expect(w.model, it.op)
        elif it.kind == 'bundle':
            it.members = [(op, member_expect(w.model, op)) for op, _ in it.members]


def check_stream_reply(w, who, it, f):
    if f.context != it.ctx or f.command != struct.unpack_from('<H', it.raw, 0)[0] or f.status != 0:
        w.violation('c02-reply-envelope', '%s: reply %r to frame %s' % (who, f, it.kind))
        return False
    if it.kind == 'list':
        return True
    try:
        items = rc.dec_send_data(f)
        rc.need(len(items) == 2 and items[1][0] == 0xB2, 'reply items')
        cip = items[1][1]
        r = rc.dec_reply(cip)
    except rc.DecodeError as exc:
        w.violation('reply-undecodable', '%s: %s' % (who, exc))
        return False
    if it.kind == 'op':
        bad = check_reply(it.op, it.exp, cip)
        if bad:
            w.violation('c02-reply-mismatch', '%s: %s -> %s' % (who, short(it.op), bad), op=it.op['kind'])
            return False
        return True
    if r.status != 0:
        w.violation('bundle-status', '%s: bundle status 0x%02x' % (who, r.status))
        return False
    return check_members(w, who, r.payload, it.members, cls='c02-reply-mismatch')


def plan_chunks(sch, data, bounds, mode, split=None):
    """Cut the byte stream `data` (frame boundaries at `bounds`) into chunks."""
    n = len(data)
    if split is not None:
        cuts = [split] if 0 < split < n else []
    elif mode == 'whole':
        cuts = []
    elif mode == 'frames':
        cuts = list(bounds)
    elif mode == 'bytes':
        cuts = list(range(1, n))
    elif mode == 'header':
        cuts = []
        for b in [0] + list(bounds):
            if b < n:
                cuts.append(b + 1 + sch.draw(23, 'hc'))         # inside the 24-byte header
                cuts.append(b + 2 + sch.draw(2, 'lc'))          # inside the length field
                if sch.draw(2, 'hb'):
                    cuts.append(b + 24)                         # header / payload boundary
    elif mode == 'coalesce2':
        cuts = [b for i, b in enumerate(bounds) if i % 2 == 1]
    else:
        k = 1 + sch.draw(8, 'nc')
        cuts = [1 + sch.draw(n - 1, 'c') for _ in range(k)] if n > 1 else []
    cuts = sorted(set(c for c in cuts if 0 < c < n))
    out = []
    prev = 0
    for c in cuts:
        out.append(data[prev:c])
        prev = c
    out.append(data[prev:])
    return out


def res_violations(w):
    return bool(w.violations)


def norm_response(w, rsp):
    """A parsed reply as text, without the things that legitimately differ between two sessions."""
    parser = w.m['parser']
    try:
        rsp['peer'] = None
        rsp['enip.session_handle'] = 0
    except Exception:       # noqa: BLE001
        pass
    return parser.enip_format(rsp)


def client_side(w, sch, params, items, r1, s0_real, s0_model, other_sid, main_tags, stats):
    client = w.m['client']
    texts = []
    rmode = params.get('rchunks') or sch.choice(['bytes', 'random', 'header', 'lastbyte', 'random', 'coalesce2'], 'rmode')
    stats['rmode'] = rmode
    rstream = b''.join(f.raw for f in r1)
    rbounds = []
    o = 0
    for f in r1:
        o += len(f.raw)
        rbounds.append(o)
    for attempt in ('whole', rmode):
        if other_sid is not None:
            poke_some(w, s0_real, [other_sid])
            w.model.restore(merge_keep(w.model.snapshot(), s0_model, [other_sid]))
        else:
            w.poke(s0_real)
            w.model.restore(s0_model)
        try:
            cli = client.client(host='127.0.0.1', port=PORT, timeout=5.0)
        except Exception as exc:        # noqa: BLE001
            w.violation('c02-client-connect', 'cpppo client could not connect: %s' % exc)
            raise Violation()
        s2c = w.net.conns[-1][0].rx
        s2c.coalesce = False
        s2c.cutter = None
        got = []
        try:
            with cli:
                cli.register(timeout=5.0)
                rsp, _ = client.await_response(cli, timeout=10.0)
                if not rsp or rsp.get('enip.status') != 0 or not rsp.get('enip.session_handle'):
                    w.violation('c02-client-register', 'cpppo client: no Register Session reply (%r)' % (rsp,))
                    raise Violation()
                session = rsp.enip.session_handle
                # now plan the cuts of the reply stream (absolute offsets, from here on)
                if attempt != 'whole':
                    if attempt == 'lastbyte':
                        cuts = set(b - 1 for b in rbounds) | set(b - len(f.raw) + 24 for b, f in zip(rbounds, r1))
                    else:
                        pieces = plan_chunks(sch, rstream, rbounds, attempt, params.get('rsplit'))
                        cuts, o = set(), 0
                        for c in pieces[:-1]:
                            o += len(c)
                            cuts.add(o)
                    pos = [0]

                    def cutter(n, pos=pos, cuts=cuts):
                        lo = pos[0]
                        pos[0] += n
                        return sorted(c - lo for c in cuts if lo < c < lo + n)
                    s2c.cutter = cutter
                    if sch.chance(1, 2, 'rlat'):
                        s2c.latency = lambda sch=sch: sch.draw(8, 'rl') / 1000.0
                    stats['rcuts'] = len(cuts)
                raws = [it.raw[:4] + struct.pack('<I', session) + it.raw[8:] for it in items]
                oneshot = sch.chance(1, 2, 'cli1shot')
                if oneshot:
                    cli.send(b''.join(raws), timeout=5.0)
                for i, it in enumerate(items):
                    if not oneshot:
                        cli.send(raws[i], timeout=5.0)
                    rsp, _ = client.await_response(cli, timeout=20.0)
                    if not rsp:
                        w.violation('c02-client-no-reply', 'cpppo client (%s delivery of the reply stream): no reply to frame %d %s (%r)' % (
                            attempt, i, it.kind, rsp), chunks=attempt)
                        raise Violation()
                    got.append(rsp)
        except Violation:
            raise
        except Exception as exc:        # noqa: BLE001
            w.violation('c02-client-framing', 'cpppo client (%s delivery of the reply stream, %d cuts) raised %s: %s after %d of %d replies' % (
                attempt, stats.get('rcuts', 0), type(exc).__name__, str(exc)[:200], len(got), len(items)), chunks=attempt)
            raise Violation()
        finally:
            try:
                cli.close()
            except Exception:       # noqa: BLE001
                pass
        apply_items(w, items)
        # framing-level equality with the reference replies
        for i, (rsp, f) in enumerate(zip(got, r1)):
            try:
                e = rsp['enip']
                mine = (e.command, e.status, bytes(bytearray(e.sender_context.input)), e.length,
                        bytes(bytearray(e.get('input', b''))))
            except (KeyError, AttributeError, TypeError) as exc:
                w.violation('c02-client-frame-content', 'cpppo client (%s): reply %d came back without its parsed frame (%s: %s): %r; the bytes were %s' % (
                    attempt, i, type(exc).__name__, exc, dict(rsp) if hasattr(rsp, 'keys') else rsp, f.raw.hex()[:120]), chunks=attempt)
                raise Violation()
            ref = (f.command, f.status, f.context, len(f.raw) - 24, f.raw[24:])
            if mine != ref:
                w.violation('c02-client-frame-content', 'cpppo client (%s): reply %d parsed as %r, the bytes were %s' % (
                    attempt, i, mine[:4] + (mine[4].hex()[:80],), f.raw.hex()[:120]), chunks=attempt)
        texts.append([norm_response(w, rsp) for rsp in got])
        stats['client_replies'] = stats.get('client_replies', 0) + len(got)
        d = state_diff_twin(w, main_tags)
        if d:
            w.violation('c02-state', 'after the stream sent by the cpppo client (%s): %r' % (attempt, d[:3]))
            raise Violation()
    if texts[0] != texts[1]:
        k = [i for i, (a, b) in enumerate(zip(texts[0], texts[1])) if a != b]
        w.violation('c02-client-segmentation-dependent', 'cpppo client: parsed reply %d differs between whole and %s delivery: %s vs %s' % (
            k[0], rmode, texts[0][k[0]][:300], texts[1][k[0]][:300]), chunks=rmode)


@world('c02')
def c02(tapes, params):
    w = EnipWorld(tapes, dict(params, short_reads=True))
    g, sch = w.gen, w.sch
    w.gen_tags(ntags=g.between(2, 4, 'ntags'), maxlen=params.get('maxlen', 24), types=FIXED_TYPES + ['SSTRING'])
    w.net.reuse_ports = lambda: sch.chance(1, 2, 'reuseport')
    w.start_server()
    unique = {'n': 0}
    mode = g.weighted([(1, 'seg'), (1, 'cut')], 'mode')         # always drawn, so that explicit parameters
    mode = params.get('mode') or mode                           # (sweeps) see the same generated stream
    nframes = g.between(1, params.get('max_frames', 8), 'nframes')
    tags = sorted(w.model.tags.values(), key=lambda t: t.name)
    # the second session works on its own storage
    sids = []
    for t in tags:
        if t.sid not in sids:
            sids.append(t.sid)
    other_sid = sids[-1] if len(sids) > 1 else None
    main_tags = [t for t in tags if t.sid != other_sid]
    other_tags = [t for t in tags if t.sid == other_sid]
    stats = {'mode': mode, 'frames': nframes, 'stream_len': 0, 'cut': None, 'replies': 0, 'other_ok': 0}
    flags = {'main_done': False}

    def other():
        """A second session that must keep being served correctly throughout."""
        s = RefSession(w, 'other')
        s.connect()
        s.register()
        n = 0
        while not flags['main_done'] and n < 30:
            n += 1
            op = gen_op(g, w.model, unique, fit=True, tag=g.choice(other_tags, 'otag'), allow_addr=False)
            exp = w.model.apply(op)
            f, rep = s.rr(op_request(op))
            if rep is None:
                w.violation('c02-other-session-broken', 'second session lost service at request %d' % n)
                raise Violation()
            bad = check_reply(op, exp, rep)
            if bad:
                w.violation('c02-other-session-wrong', '%s -> %s' % (short(op), bad))
            stats['other_ok'] += 1
            w.sched.sleep(0.001 * (1 + sch.draw(30, 'think')))
        s.close()

    def prober(where):
        """A fresh session registers and reads every tag back; must equal the model."""
        if sch.chance(1, 4, 'abortconn'):
            # connections that end before their first byte -- reset while still in the listen backlog
            for _ in range(1 + sch.draw(3, 'nabort')):
                z = RefSession(w, 'abort', chunk_mode='whole')
                z.connect()
                z.sock.tx.reset()
                z.sock.close()
                w.net.fired('RST_BEFORE_ACCEPT')
            w.sched.sleep(0.2)
        if w.server_thread._sim_state == 'done':
            w.violation('c02-listener-dead', 'the simulator main thread ended %s' % where)
            raise Violation()
        p = RefSession(w, 'prober', chunk_mode='whole')
        p.connect()
        p.register()
        for t in main_tags:
            op = {'kind': 'read', 'ref': ('name', t.name), 'index': None, 'elements': min(t.length, 6)}
            exp = w.model.apply(op)
            f, rep = p.rr(op_request(op))
            bad = 'no reply' if rep is None else check_reply(op, exp, rep)
            if bad:
                w.violation('c02-readback', 'read-back %s of %s: %s' % (where, t.name, bad))
        p.close()

    def main():
        s = RefSession(w, 'main', chunk_mode='whole')
        s.connect()
        s.register()
        w.bind_auto_tags()
        s0_model = w.model.snapshot()
        s0_real = w.peek()
        items = build_stream(w, g, s, unique, nframes, main_tags)
        stream = b''.join(it.raw for it in items)
        bounds = []
        o = 0
        for it in items:
            o += len(it.raw)
            bounds.append(o)
        stats['stream_len'] = len(stream)
        w.samples.append({'frames': [it.kind if it.op is None else short(it.op) for it in items][:8], 'len': len(stream)})
        if mode == 'seg':
            # --- execution 1: one send per frame, reply read before the next
            apply_items(w, items)
            r1 = []
            for it in items:
                s.send_frame(it.raw)
                f = s.recv_frame()
                if f is None:
                    w.violation('c02-no-reply', 'as-sent baseline: no reply to frame %s' % it.kind)
                    raise Violation()
                check_stream_reply(w, 'baseline', it, f)
                r1.append(f)
            s.close()
            d = state_diff_twin(w, main_tags)
            if d:
                w.violation('c02-state', 'after the baseline stream: %r' % (d[:3],))
                raise Violation()
            # --- restore S0 (harness privilege) and run the same bytes cut into chunks
            if other_sid is not None:
                poke_some(w, s0_real, [other_sid])
                w.model.restore(merge_keep(w.model.snapshot(), s0_model, [other_sid]))
            else:
                w.poke(s0_real)
                w.model.restore(s0_model)
            s2 = RefSession(w, 'main2', chunk_mode='whole')
            s2.connect()
            s2.register()
            # same frames, new session handle
            raws = [it.raw[:4] + struct.pack('<I', s2.session) + it.raw[8:] for it in items]
            stream2 = b''.join(raws)
            cmode = params.get('chunks') or sch.choice(['bytes', 'random', 'header', 'whole', 'coalesce2', 'frames', 'random'], 'cmode')
            chunks = plan_chunks(sch, stream2, bounds, cmode, params.get('split'))
            stats['chunks'] = len(chunks)
            stats['cmode'] = cmode
            for c in chunks:
                s2.sock.send(c)
                if sch.chance(1, 3, 'gap'):
                    w.sched.sleep(0.001 * sch.draw(40, 'gapms'))
            apply_items(w, items)
            for i, it in enumerate(items):
                f = s2.recv_frame()
                if f is None:
                    w.violation('c02-no-reply', 'chunked (%s, %d chunks): no reply to frame %d %s' % (cmode, len(chunks), i, it.kind))
                    raise Violation()
                stats['replies'] += 1
                check_stream_reply(w, 'chunked', it, f)
                if mask_session(f.raw) != mask_session(r1[i].raw):
                    w.violation('c02-segmentation-dependent', 'frame %d %s: reply differs between as-sent and %s delivery: %s vs %s' % (
                        i, it.kind, cmode, r1[i].raw.hex()[:120], f.raw.hex()[:120]), chunks=cmode)
            f = s2.recv_frame(timeout=1.0)
            if f is not None:
                w.violation('c02-extra-reply', 'extra frame after the stream: %r' % f)
            s2.close()
            d = state_diff_twin(w, main_tags)
            if d:
                w.violation('c02-state', 'after the chunked stream (%s): %r' % (cmode, d[:3]))
            # --- the client side of the same framing: cpppo's own client.client receives the
            # reply stream once frame by frame and once cut into chunks; the parsed replies must be
            # the same, and equal the reference replies at the framing level
            if not res_violations(w) and params.get('client_side', True) and g.chance(1, 2, 'cliside'):
                client_side(w, sch, params, items, r1, s0_real, s0_model, other_sid, main_tags, stats)
        else:
            # --- crash point: deliver exactly k bytes of the stream, then end the connection
            n = len(stream)
            j = g.draw(len(items), 'cutframe')
            lo = bounds[j - 1] if j else 0
            k = g.weighted([(4, lo + 1 + g.draw(max(1, bounds[j] - lo - 1), 'cutin')),
                            (1, lo), (1, lo + min(24, bounds[j] - lo - 1)), (1, lo + 3)], 'cutk')
            if params.get('cut') is not None:
                k = params['cut']
            k = max(0, min(k, n))
            how = g.choice(['FIN', 'RST', 'STALL'], 'how')
            how = params.get('how') or how
            stats['cut'] = k
            stats['how'] = how
            complete = [it for it, b in zip(items, bounds) if b <= k]
            cmode = sch.choice(['whole', 'random', 'bytes', 'header'], 'cmode')
            for c in plan_chunks(sch, stream[:k], [b for b in bounds if b < k], cmode):
                s.sock.send(c)
            apply_items(w, complete)                 # exactly the complete frames take effect
            w.net.fired('CUT_' + how)
            if how == 'FIN':
                s.sock.shutdown(1)
            elif how == 'RST':
                # a reset may discard bytes the peer has not read yet; "delivered" is only certain for
                # what the server has consumed, so reset once all k bytes have been read
                tx = s.sock.tx
                total = tx.written
                w.sched.block(Waiter(cond=lambda: tx.delivered >= total, deadline=w.sched.now + 30.0,
                                     cond_time=lambda: w.sched.now + 0.05, why='await-consumed'))
                tx.reset()
            if how != 'RST':
                for i, it in enumerate(complete):
                    f = s.recv_frame(timeout=20.0)
                    if f is None:
                        w.violation('c02-no-reply', 'cut at %d/%d (%s): no reply to complete frame %d %s' % (k, n, how, i, it.kind))
                        raise Violation()
                    stats['replies'] += 1
                    check_stream_reply(w, 'cut', it, f)
                f = s.recv_frame(timeout=3.0)
                if f is not None:
                    w.violation('c02-reply-to-incomplete', 'cut at %d/%d (%s) inside frame %d: a reply %r arrived for the unfinished frame' % (
                        k, n, how, len(complete), f), how=how)
                elif how == 'FIN' and not (s.eof or s.rst):
                    w.violation('c02-not-closed', 'cut at %d/%d (FIN): the server did not close the connection' % (k, n))
            else:
                w.sched.sleep(1.0)
            d = state_diff_twin(w, main_tags)
            if d:
                w.violation('c02-incomplete-frame-effect', 'cut at %d/%d (%s), %d complete frames: state differs from model %r' % (
                    k, n, how, len(complete), d[:3]), how=how)
                raise Violation()
            if how != 'STALL':
                s.close()
        prober('after the stream')
        flags['main_done'] = True

    w.spawn(main, 'main')
    if other_tags:
        w.spawn(other, 'other')
    res = w.run()
    res['nontrivial'] = bool(stats['stream_len'] > 24 or res['violations'])
    res['notes'] = stats
    return res
