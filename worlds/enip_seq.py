"""ENIP-seq worlds: server + 1..3 reference sessions, at most one request in flight globally.
Benign network nondeterminism only (segmentation, delay, short reads, which session issues next).

  c03  tags behave as typed arrays (refinement of the array model, op by op + state peeks)
  c04  fragmented transfers (walkers over small and default reply budgets)
  c05  invalid requests refused without side effects; accepted writes stay readable
"""
from sim.runner import world
from ref import refcodec as rc
from ref.model import STRINGS, elem_size
from .enip_base import (EnipWorld, RefSession, Violation, gen_op, op_request, check_reply, short,
                        FIXED_TYPES, ALL_TYPES, SERVICE)


class SeqDriver(object):
    """Owns the sessions of an ENIP-seq world and issues one request at a time."""

    def __init__(self, w, nsess, connected_ok=True):
        self.w = w
        self.nsess = nsess
        self.connected_ok = connected_ok
        self.sess = []
        self.nreq = 0
        self.nontrivial = 0

    def open_sessions(self):
        w = self.w
        g = w.gen
        for i in range(self.nsess):
            s = RefSession(w, 's%d' % i)
            s.connect()
            s.register()
            s.connected = False
            if self.connected_ok and g.chance(1, 4, 'connected?'):
                r = s.forward_open(large=bool(g.draw(2, 'large')))
                if r is None or r.status != 0:
                    w.violation('forward-open-refused', 'Forward Open refused: %r' % (r,))
                    raise Violation()
                s.connected = True
            self.sess.append(s)
        w.bind_auto_tags()

    def issue(self, s, cip):
        """Send one CIP request on session s by its transport; returns reply bytes or None."""
        w = self.w
        self.nreq += 1
        if s.connected:
            f, rep = s.unit(cip)
        else:
            route = w.gen.weighted([(3, 'none'), (2, 'bare'), (1, [('port', 1, 0)])], 'route')
            if route == 'bare' and cip[:1] == b'\x52':
                # service code 0x52 is both Read Tag Fragmented and Unconnected Send: a bare 0x52 in
                # an unconnected data item *is* an Unconnected Send by the protocol's own rules
                route = 'none'
            f, rep = s.rr(cip, route=route)
        return f, rep

    def do_op(self, op, s=None, check_state=True, cls='reply-mismatch'):
        """Apply op to the model, issue it, compare.  Returns (expected, reply bytes)."""
        w = self.w
        s = s or self.sess[w.gen.draw(len(self.sess), 'sess')]
        exp = w.model.apply(op)
        w.samples.append({'s': s.name, 'op': short(op), 'exp': exp.describe()})
        f, rep = self.issue(s, op_request(op))
        if rep is None:
            w.violation('no-reply', '%s: %s -> %s (session %s); expected %s' % (
                s.name, short(op), 'no frame' if f is None else 'encapsulation status 0x%x' % f.status,
                'closed' if (s.eof or s.rst) else 'open', exp.describe()),
                op=op['kind'])
            raise Violation()
        bad = check_reply(op, exp, rep)
        if bad:
            w.violation(cls, '%s: %s -> %s' % (s.name, short(op), bad), op=op['kind'],
                        ttype=self.tag_type(op), dtype=op.get('tname'))
        if exp.ok():
            self.nontrivial += 1
        if check_state and op['kind'] in ('write', 'writefrag', 'sas'):
            self.check_state('after %s' % (short(op),), op)
        return exp, rep

    def tag_type(self, op):
        sid, found = self.w.model.resolve(op['ref'], tag_service=op['kind'] not in ('gas', 'sas'))
        return self.w.model.stype.get(sid) if sid is not None else None

    def check_state(self, where, op=None):
        d = self.w.state_diff()
        if d:
            self.w.violation('state-mismatch', 'simulator state differs from model %s: (storage, index, got, want) %r' % (
                where, d[:4]), op=op['kind'] if op else None, ttype=self.tag_type(op) if op else None)
            raise Violation()

    def read_back_all(self, cls='readback-mismatch'):
        """A fresh session walks every tag completely with Read Tag Fragmented and compares."""
        w = self.w
        s = RefSession(w, 'readback', chunk_mode='whole')
        s.connect()
        s.register()
        s.connected = False
        for t in sorted(w.model.tags.values(), key=lambda t: t.name):
            if t.tname in STRINGS:
                got = []
                while len(got) < t.length:
                    op = {'kind': 'read', 'ref': ('name', t.name), 'index': len(got), 'elements': t.length - len(got)}
                    f, rep = s.rr(op_request(op))
                    r = rc.dec_reply(rep) if rep else None
                    if r is None or r.status not in (0, 6):
                        w.violation(cls, 'read-back of %s failed: %r' % (t.name, r), ttype=t.tname)
                        raise Violation()
                    tn, vals, _ = rc.dec_typed(r.payload)
                    got += vals
                    if r.status == 0:
                        break
            else:
                got = b''
                size = elem_size(t.tname)
                n = 0
                while True:
                    op = {'kind': 'readfrag', 'ref': ('name', t.name), 'index': None, 'elements': t.length,
                          'offset': len(got)}
                    f, rep = s.rr(op_request(op))
                    r = rc.dec_reply(rep) if rep else None
                    n += 1
                    if r is None or r.status not in (0, 6) or len(r.payload) <= 2 or n > t.length + 2:
                        w.violation(cls, 'read-back of %s failed at offset %d: %r' % (t.name, len(got), r), ttype=t.tname)
                        raise Violation()
                    got += r.payload[2:]
                    if r.status == 0:
                        break
                got = rc.dec_elems(t.tname, got)
            want = w.model.store[t.sid]
            if rc.enc_elems(t.tname, got) != rc.enc_elems(t.tname, want):
                bad = [(i, a, b) for i, (a, b) in enumerate(zip(got, want)) if a != b][:4]
                w.violation(cls, 'read-back of %s: %d elements, first differences (index, got, want) %r' % (
                    t.name, len(got), bad), ttype=t.tname)
                raise Violation()
        s.close()


@world('c03')
def c03(tapes, params):
    w = EnipWorld(tapes, params)
    g = w.gen
    w.gen_tags()
    w.start_server()
    nsess = g.between(1, 3, 'nsess')
    nops = g.between(5, params.get('max_ops', 60), 'nops')
    unique = {'n': 0}
    drv = SeqDriver(w, nsess)

    def driver():
        drv.open_sessions()
        drv.check_state('initially')
        for _ in range(nops):
            op = gen_op(g, w.model, unique, cross=2, fit=True)
            drv.do_op(op)
        drv.read_back_all()
        for s in drv.sess:
            s.close()
    w.spawn(driver, 'driver')
    res = w.run()
    res['nontrivial'] = drv.nontrivial >= 3 and not res['violations'] or bool(res['violations'])
    res['nreq'] = drv.nreq
    return res
