"""ENIP-seq worlds: server + 1..3 reference sessions, at most one request in flight globally.
Benign network nondeterminism only (segmentation, delay, short reads, which session issues next).

  c03  tags behave as typed arrays (refinement of the array model, op by op + state peeks)
  c04  fragmented transfers (walkers over small and default reply budgets)
  c05  invalid requests refused without side effects; accepted writes stay readable
"""
from sim.runner import world
from ref import refcodec as rc
from ref.model import STRINGS, elem_size
from .enip_base import (EnipWorld, RefSession, Violation, gen_op, op_request, check_reply, short,
                        FIXED_TYPES, ALL_TYPES, SERVICE)


class SeqDriver(object):
    """Owns the sessions of an ENIP-seq world and issues one request at a time."""

    def __init__(self, w, nsess, connected_ok=True):
        self.w = w
        self.nsess = nsess
        self.connected_ok = connected_ok
        self.sess = []
        self.nreq = 0
        self.nontrivial = 0

    def open_sessions(self):
        w = self.w
        g = w.gen
        for i in range(self.nsess):
            s = RefSession(w, 's%d' % i)
            s.connect()
            s.register()
            s.connected = False
            if self.connected_ok and g.chance(1, 4, 'connected?'):
                r = s.forward_open(large=bool(g.draw(2, 'large')))
                if r is None or r.status != 0:
                    w.violation('forward-open-refused', 'Forward Open refused: %r' % (r,))
                    raise Violation()
                s.connected = True
            self.sess.append(s)
        w.bind_auto_tags()

    def issue(self, s, cip):
        """Send one CIP request on session s by its transport; returns reply bytes or None."""
        w = self.w
        self.nreq += 1
        if s.connected:
            f, rep = s.unit(cip)
        else:
            route = w.gen.weighted([(3, 'none'), (2, 'bare'), (1, [('port', 1, 0)])], 'route')
            if route == 'bare' and cip[:1] == b'\x52':
                # service code 0x52 is both Read Tag Fragmented and Unconnected Send: a bare 0x52 in
                # an unconnected data item *is* an Unconnected Send by the protocol's own rules
                route = 'none'
            f, rep = s.rr(cip, route=route)
        return f, rep

    def do_op(self, op, s=None, check_state=True, cls='reply-mismatch'):
        """Apply op to the model, issue it, compare.  Returns (expected, reply bytes)."""
        w = self.w
        s = s or self.sess[w.gen.draw(len(self.sess), 'sess')]
        exp = w.model.apply(op)
        w.samples.append({'s': s.name, 'op': short(op), 'exp': exp.describe()})
        f, rep = self.issue(s, op_request(op))
        if rep is None:
            w.violation('no-reply', '%s: %s -> %s (session %s); expected %s' % (
                s.name, short(op), 'no frame' if f is None else 'encapsulation status 0x%x' % f.status,
                'closed' if (s.eof or s.rst) else 'open', exp.describe()),
                op=op['kind'])
            raise Violation()
        bad = check_reply(op, exp, rep)
        if bad:
            w.violation(cls, '%s: %s -> %s' % (s.name, short(op), bad), op=op['kind'],
                        ttype=self.tag_type(op), dtype=op.get('tname'))
        if exp.ok():
            self.nontrivial += 1
        if check_state and op['kind'] in ('write', 'writefrag', 'sas'):
            self.check_state('after %s' % (short(op),), op)
        return exp, rep

    def tag_type(self, op):
        sid, found = self.w.model.resolve(op['ref'], tag_service=op['kind'] not in ('gas', 'sas'))
        return self.w.model.stype.get(sid) if sid is not None else None

    def check_state(self, where, op=None):
        d = self.w.state_diff()
        if d:
            self.w.violation('state-mismatch', 'simulator state differs from model %s: (storage, index, got, want) %r' % (
                where, d[:4]), op=op['kind'] if op else None, ttype=self.tag_type(op) if op else None)
            raise Violation()

    def read_back_all(self, cls='readback-mismatch'):
        """A fresh session walks every tag completely with Read Tag Fragmented and compares."""
        w = self.w
        s = RefSession(w, 'readback', chunk_mode='whole')
        s.connect()
        s.register()
        s.connected = False
        for t in sorted(w.model.tags.values(), key=lambda t: t.name):
            if t.tname in STRINGS:
                got = []
                while len(got) < t.length:
                    op = {'kind': 'read', 'ref': ('name', t.name), 'index': len(got), 'elements': t.length - len(got)}
                    f, rep = s.rr(op_request(op))
                    r = rc.dec_reply(rep) if rep else None
                    if r is None or r.status not in (0, 6):
                        w.violation(cls, 'read-back of %s failed: %r' % (t.name, r), ttype=t.tname)
                        raise Violation()
                    tn, vals, _ = rc.dec_typed(r.payload)
                    got += vals
                    if r.status == 0:
                        break
            else:
                got = b''
                size = elem_size(t.tname)
                n = 0
                while True:
                    op = {'kind': 'readfrag', 'ref': ('name', t.name), 'index': None, 'elements': t.length,
                          'offset': len(got)}
                    f, rep = s.rr(op_request(op))
                    r = rc.dec_reply(rep) if rep else None
                    n += 1
                    if r is None or r.status not in (0, 6) or len(r.payload) <= 2 or n > t.length + 2:
                        w.violation(cls, 'read-back of %s failed at offset %d: %r' % (t.name, len(got), r), ttype=t.tname)
                        raise Violation()
                    got += r.payload[2:]
                    if r.status == 0:
                        break
                got = rc.dec_elems(t.tname, got)
            want = w.model.store[t.sid]
            if rc.enc_elems(t.tname, got) != rc.enc_elems(t.tname, want):
                bad = [(i, a, b) for i, (a, b) in enumerate(zip(got, want)) if a != b][:4]
                w.violation(cls, 'read-back of %s: %d elements, first differences (index, got, want) %r' % (
                    t.name, len(got), bad), ttype=t.tname)
                raise Violation()
        s.close()


@world('c03')
def c03(tapes, params):
    w = EnipWorld(tapes, params)
    g = w.gen
    w.gen_tags()
    w.start_server()
    nsess = g.between(1, 3, 'nsess')
    nops = g.between(5, params.get('max_ops', 60), 'nops')
    unique = {'n': 0}
    drv = SeqDriver(w, nsess)

    def driver():
        drv.open_sessions()
        drv.check_state('initially')
        for _ in range(nops):
            op = gen_op(g, w.model, unique, cross=2, fit=True)
            drv.do_op(op)
        drv.read_back_all()
        for s in drv.sess:
            s.close()
    w.spawn(driver, 'driver')
    res = w.run()
    res['nontrivial'] = drv.nontrivial >= 3 and not res['violations'] or bool(res['violations'])
    res['nreq'] = drv.nreq
    return res


# ---------------------------------------------------------------------------- C04
def walk_read(drv, s, tag, idx, n, ref=None, noise=None):
    """Drive a Read Tag Fragmented transfer of [idx, idx+n) to completion; check every fragment
    against the invariants C04 states.  Returns the list of values."""
    w = drv.w
    tname = tag.tname
    size = elem_size(tname)
    per = max(1, (w.budget + size - 1) // size)         # budget rounded up to a whole element
    got = b''
    frags = 0
    ref = ref or ('name', tag.name)
    while True:
        op = {'kind': 'readfrag', 'ref': ref, 'index': idx, 'elements': n, 'offset': len(got)}
        f, rep = drv.issue(s, op_request(op))
        frags += 1
        if rep is None:
            w.violation('c04-no-reply', 'walk of %s[%d..%d) lost its session at offset %d' % (tag.name, idx, idx + n, len(got)),
                        ttype=tname)
            raise Violation()
        r = rc.dec_reply(rep)
        if r.service != (rc.READ_FRAG | 0x80) or r.status not in (0x00, 0x06):
            w.violation('c04-fragment-status', 'walk of %s[%d..%d) budget %d: fragment %d at offset %d answered status 0x%02x ext %s' % (
                tag.name, idx, idx + n, w.budget, frags, len(got), r.status, r.ext), ttype=tname)
            raise Violation()
        code = struct_u16(r.payload[:2])
        data = r.payload[2:]
        k, rem = divmod(len(data), size)
        if code != rc.TYPE_CODE[tname] or rem or k < 1 or k > per:
            w.violation('c04-fragment-size', 'walk of %s[%d..%d) budget %d size %d: fragment %d carries type 0x%x, %d bytes '
                        '(%d elements + %d bytes); allowed 1..%d whole elements' % (
                            tag.name, idx, idx + n, w.budget, size, frags, code, len(data), k, rem, per), ttype=tname)
            raise Violation()
        got += data
        total = len(got) // size
        if total > n:
            w.violation('c04-overrun', 'walk of %s[%d..%d): received %d elements' % (tag.name, idx, idx + n, total), ttype=tname)
            raise Violation()
        done = total == n
        if (r.status == 0x00) != done:
            w.violation('c04-completion-status', 'walk of %s[%d..%d) budget %d: fragment %d status 0x%02x with %d of %d elements received' % (
                tag.name, idx, idx + n, w.budget, frags, r.status, total, n), ttype=tname)
            raise Violation()
        if done:
            break
        if noise is not None:
            noise()
    want = w.model.store[tag.sid][idx:idx + n]
    vals = rc.dec_elems(tname, got)
    if rc.enc_elems(tname, want) != got:
        bad = [(i, a, b) for i, (a, b) in enumerate(zip(vals, want)) if a != b][:4]
        w.violation('c04-reassembly', 'walk of %s[%d..%d) budget %d in %d fragments: differences (index, got, want) %r' % (
            tag.name, idx, idx + n, w.budget, frags, bad), ttype=tname)
        raise Violation()
    w.sched.probe('c04_fragments', frags)
    if frags > 1:
        w.sched.probe('c04_multi_fragment_walks')
    if n % per == 0:
        w.sched.probe('c04_range_end_on_budget_boundary')
    return vals


def struct_u16(b):
    return b[0] | (b[1] << 8) if len(b) >= 2 else -1


def tile_write(drv, s, tag, idx, n, unique, noise=None):
    """Tile [idx, idx+n) with Write Tag Fragmented pieces of tape-chosen sizes (in order)."""
    w = drv.w
    g = w.gen
    size = elem_size(tag.tname)
    pos = 0
    pieces = 0
    from .enip_base import gen_fit
    while pos < n:
        k = 1 + g.draw(min(n - pos, 1 + g.choice([1, 3, 10, 60], 'piecemax')), 'piece')
        k = min(k, n - pos)
        vals = [gen_fit(g, tag.tname, tag.tname, unique, True) for _ in range(k)]
        op = {'kind': 'writefrag', 'ref': ('name', tag.name), 'index': idx, 'elements': n, 'offset': pos * size,
              'tname': tag.tname, 'values': vals}
        exp, rep = drv.do_op(op, s, cls='c04-write-fragment')
        pos += k
        pieces += 1
        if noise is not None:
            noise()
    w.sched.probe('c04_write_pieces', pieces)


@world('c04')
def c04(tapes, params):
    w = EnipWorld(tapes, params)
    g = w.gen
    if 'budget' not in params:
        params['budget'] = g.weighted([(4, g.between(3, 64, 'bsmall')), (2, 488), (1, g.between(65, 600, 'bmid'))], 'budget')
    w.gen_tags(ntags=g.between(2, 4, 'ntags'), types=FIXED_TYPES, maxlen=params.get('maxlen', 400))
    w.start_server()
    unique = {'n': 0}
    drv = SeqDriver(w, 2)
    ntransfers = g.between(2, 8, 'ntransfers')

    def driver():
        drv.open_sessions()
        tags = sorted(w.model.tags.values(), key=lambda t: t.name)

        def noise():
            # another session touches *other* tags between fragments; must not matter
            if len(tags) > 1 and g.chance(1, 3, 'noise?'):
                other = g.choice([t for t in tags if t.sid != cur[0].sid] or tags, 'noisetag')
                if other.sid != cur[0].sid:
                    drv.do_op(gen_op(g, w.model, unique, kinds=['write', 'read'], tag=other, allow_addr=False), drv.sess[1])
        cur = [tags[0]]
        for _ in range(ntransfers):
            tag = g.choice(tags, 'tag')
            cur[0] = tag
            idx = g.draw(tag.length, 'idx')
            n = 1 + g.draw(tag.length - idx, 'cnt')
            if g.chance(1, 3, 'whole'):
                idx, n = 0, tag.length
            if g.chance(1, 2, 'write?'):
                tile_write(drv, drv.sess[0], tag, idx, n, unique, noise)
                drv.nontrivial += 1
            ref = ('name', tag.name)
            if tag.addr is not None and g.chance(1, 3, 'byaddr'):
                ref = ('addr', tag.addr)
            walk_read(drv, drv.sess[0], tag, idx, n, ref=ref, noise=noise)
            drv.nontrivial += 1
            w.samples.append({'walk': tag.name, 'type': tag.tname, 'range': [idx, idx + n], 'budget': w.budget})
        drv.check_state('finally')
    w.spawn(driver, 'driver')
    res = w.run()
    res['nontrivial'] = bool(drv.nontrivial >= 2 or res['violations'])
    res['nreq'] = drv.nreq
    return res


# ---------------------------------------------------------------------------- C05
def gen_unknown(g, model):
    """A request to something that does not exist: unknown tag, unknown object, unknown attribute."""
    k = g.draw(3, 'unk')
    tags = sorted(model.tags.values(), key=lambda t: t.name)
    if k == 0:
        return {'kind': g.choice(['read', 'write', 'readfrag'], 'uk'), 'ref': ('name', g.choice(['Nope', 'missing.tag', 'Z9'], 'un')),
                'index': None, 'elements': 1, 'tname': 'INT', 'values': [1], 'offset': 0}, 'tag'
    addr_tags = [t for t in tags if t.addr is not None]
    if k == 1 or not addr_tags:
        # an object that does not exist; the attribute number and payload size are chosen to fit a
        # tag that does exist elsewhere (so a mis-routed Set Attribute Single would be accepted)
        t = g.choice(addr_tags or tags, 'uot')
        a = t.addr[2] if t.addr is not None else 1
        data = rc.enc_elems(t.tname, [1] * t.length) if t.tname not in STRINGS else b'\x01a'
        return {'kind': g.choice(['read', 'gas', 'sas', 'write'], 'uk'), 'ref': ('addr', (0x77, g.choice([1, 9], 'ui'), a)),
                'index': None, 'elements': 1, 'data': data, 'tname': t.tname,
                'values': [1] if t.tname not in STRINGS else ['a']}, 'object'
    t = g.choice(addr_tags, 'ut')
    c, i, a = t.addr
    # attribute 0 is never valid (and must not be read as "no attribute given")
    free = g.choice([x for x in (0, 7, 9, 77, 301) if (c, i, x) not in model.addr], 'ufree')
    return {'kind': g.choice(['read', 'write', 'gas', 'sas'], 'uk'), 'ref': ('addr', (c, i, free)), 'index': None,
            'elements': 1, 'tname': t.tname, 'values': [0] if t.tname not in STRINGS else [''], 'data': b'\x00\x00'}, 'attribute'


@world('c05')
def c05(tapes, params):
    w = EnipWorld(tapes, params)
    g = w.gen
    w.gen_tags(maxlen=params.get('maxlen', 300))
    w.start_server()
    unique = {'n': 0}
    drv = SeqDriver(w, 2, connected_ok=True)
    nops = g.between(5, params.get('max_ops', 40), 'nops')
    refused = [0]

    def reopen(i):
        s = RefSession(w, 's%d' % i)
        s.connect()
        s.register()
        s.connected = False
        drv.sess[i] = s
        return s

    def probe_other(i):
        """The other session must still be served correctly."""
        o = drv.sess[1 - i]
        tags = sorted(w.model.tags.values(), key=lambda t: t.name)
        t = g.choice(tags, 'ptag')
        op = {'kind': 'read', 'ref': ('name', t.name), 'index': None, 'elements': 1}
        exp = w.model.apply(op)
        f, rep = drv.issue(o, op_request(op))
        if rep is None:
            w.violation('other-session-broken', 'after a request on %s the other session %s got no reply to %s' % (
                drv.sess[i].name, o.name, short(op)), ttype=t.tname)
            raise Violation()
        bad = check_reply(op, exp, rep)
        if bad:
            w.violation('other-session-wrong', '%s: %s -> %s' % (o.name, short(op), bad), ttype=t.tname)

    def driver():
        drv.open_sessions()
        drv.check_state('initially')
        for _ in range(nops):
            i = g.draw(2, 'sess')
            s = drv.sess[i]
            k = g.draw(10, 'opk')
            if k == 0:
                op, what = gen_unknown(g, w.model)
            else:
                op, what = gen_op(g, w.model, unique, boundary=5, cross=4, fit=False), None
            exp = w.model.apply(op)
            w.samples.append({'s': s.name, 'op': short(op), 'exp': exp.describe()})
            f, rep = drv.issue(s, op_request(op))
            if exp.unknown and not s.connected:
                # unknown tag/object outside a connected session: refused at encapsulation level
                refused[0] += 1
                if rep is not None:
                    r = rc.dec_reply(rep)
                    if r.status in (0, 6):
                        w.violation('unknown-target-accepted', '%s -> status 0x%02x' % (short(op), r.status), op=op['kind'], what=what)
                elif f is not None and f.status == 0:
                    w.violation('unknown-target-accepted', '%s -> frame without error status' % (short(op),), op=op['kind'], what=what)
                if f is None or f.status != 0:
                    # the simulator ends a session after an encapsulation-level error
                    s.close()
                    s = reopen(i)
            elif rep is None:
                w.violation('no-reply', '%s: %s -> %s; expected %s' % (
                    s.name, short(op), 'no frame' if f is None else 'encapsulation status 0x%x' % f.status, exp.describe()),
                    op=op['kind'], ttype=drv.tag_type(op), dtype=op.get('tname'))
                raise Violation()
            else:
                if exp.unknown:
                    exp = type(exp)(status=0x05, ext=(0,)) if op['kind'] not in ('gas', 'sas') else type(exp)(any_error=True)
                bad = check_reply(op, exp, rep)
                if bad:
                    w.violation('reply-mismatch' if exp.ok() else 'refusal-mismatch', '%s: %s -> %s' % (s.name, short(op), bad),
                                op=op['kind'], ttype=drv.tag_type(op), dtype=op.get('tname'),
                                vclass=value_class(w.model, op))
                if not exp.ok():
                    refused[0] += 1
                else:
                    drv.nontrivial += 1
            # refused or not: the simulator's state must equal the model's (unchanged on refusal)
            d = w.state_diff()
            if d:
                w.violation('state-mismatch', 'after %s (%s): (storage, index, got, want) %r' % (
                    short(op), exp.describe(), d[:4]), op=op['kind'], ttype=drv.tag_type(op), dtype=op.get('tname'),
                    vclass=value_class(w.model, op))
                raise Violation()
            if g.chance(1, 3, 'probe?'):
                probe_other(i)
        drv.read_back_all(cls='written-tag-unreadable')
    w.spawn(driver, 'driver')
    res = w.run()
    res['nontrivial'] = bool((drv.nontrivial >= 2 and refused[0] >= 1) or res['violations'])
    res['nreq'] = drv.nreq
    res['notes'] = {'refused': refused[0]}
    return res


def value_class(model, op):
    """Does the write carry a value the tag's own type cannot represent?"""
    from ref.model import representable
    if op['kind'] not in ('write', 'writefrag'):
        return None
    sid, found = model.resolve(op['ref'])
    if sid is None:
        return None
    t = model.stype[sid]
    return 'in-range' if all(representable(t, v) for v in op['values']) else 'out-of-range'
