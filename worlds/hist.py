"""HIST world (C18): history written by the real logger, spread over rotated / compressed files,
replayed by the real loader under the virtual clock.  The schedule is the tape-driven sequence of
clock advances and load() calls.
"""
import bz2
import gzip
import hashlib
import json
import os
import shutil
import tempfile

from sim import install, sched as _sched
from sim.runner import world
from sim.tape import Tapes

T0 = 1400000000.0           # 2014-05-13; all record times lie on a millisecond grid after it
EPS = 0.0011


def ms(t):
    return int(round(t * 1000))


@world('c18')
def c18(tapes, params):
    m = install.install()
    hfiles, htimes = install.install_history()
    g, sch = tapes.gen, tapes.sch
    s = _sched.Sched(sch)
    _sched.activate(s)
    s.now = T0 + 86400.0 * 10
    violations = []
    stats = {'records': 0, 'files': 0, 'delivered': 0, 'loads': 0, 'switches': 0, 'corrupt': 0, 'compressed': 0,
             'equal_ts': 0, 'states': {}}
    evlog = []

    def violation(cls, msg, **key):
        violations.append(dict(cls=cls, msg=str(msg)[:1800], key=key))

    base = '/dev/shm' if os.path.isdir('/dev/shm') else None
    d = tempfile.mkdtemp(prefix='verif-hist-', dir=base)
    try:
        # ---------------------------------------------------------------- the history
        nrec = g.weighted([(4, g.between(1, 12, 'n1')), (3, g.between(13, 60, 'n2')), (1, g.between(61, 200, 'n3'))], 'nrec')
        regs = ['4%04d' % (1 + i) for i in range(g.between(1, 5, 'nregs'))]
        t = T0 + g.draw(1000, 't0ms') / 1000.0
        recs = []
        for i in range(nrec):
            if i:
                k = g.weighted([(2, 'eq'), (5, 'ms'), (3, 's'), (1, 'h')], 'dt')
                if k == 'eq' and params.get('equal_ts', True):
                    stats['equal_ts'] += 1
                elif k in ('eq', 'ms'):
                    t += (2 + g.draw(998, 'dms')) / 1000.0
                elif k == 's':
                    t += (1000 + g.draw(120000, 'ds')) / 1000.0
                else:
                    t += 3600.0 * (1 + g.draw(5, 'dh'))
            t = round(t, 3)
            vals = {r: (i * 7 + j + g.draw(3, 'v')) % 65536 for j, r in enumerate(regs) if j == 0 or g.draw(2, 'has')}
            recs.append((t, i, vals))
        stats['records'] = nrec
        nfiles = min(nrec, g.weighted([(3, 1), (4, g.between(2, 4, 'f1')), (2, g.between(5, 8, 'f2')), (1, g.between(9, 13, 'f3'))], 'nfiles'))
        # contiguous non-empty chunks, oldest first
        cuts = sorted(set(1 + g.draw(nrec - 1, 'cut') for _ in range(nfiles - 1))) if nrec > 1 else []
        chunks = []
        prev = 0
        for c in cuts + [nrec]:
            if c > prev:
                chunks.append(recs[prev:c])
                prev = c
        nfiles = len(chunks)
        stats['files'] = nfiles
        name = os.path.join(d, 'hist.log')
        # newest chunk -> 'hist.log', next older -> '.0', '.1', ...
        layout = []
        bad_lines = 0
        for age, chunk in enumerate(reversed(chunks)):
            suffix = '' if age == 0 else '.%d' % (age - 1)
            path = name + suffix
            lg = hfiles.logger(path)
            for j, (rt, serial, vals) in enumerate(chunk):
                lg.write(vals, now=rt, serial=serial)
                if j >= 0 and g.chance(1, 6, 'junk?'):
                    k = g.draw(5, 'junk')
                    # the corrupt line carries this record's time, or a later one (before the next record)
                    # (before the next record of the *history*, which may sit in the next file: a logger
                    # never stamps a line later than the lines it writes afterwards)
                    later = [r[0] for r in recs if r[1] > serial]
                    nxt = later[0] if later else rt + 1.0
                    if nxt - rt > 0.004 and g.chance(1, 2, 'junklater'):
                        rt = round(rt + min((nxt - rt) / 2.0, 0.5), 3)
                    if k == 0:
                        lg.comment('rotated %d' % j)
                    elif k == 1:
                        lg._append('\n')
                    elif k == 2:
                        lg._append('%s\t%d\t{"4%04d": oops\n' % (hfiles.timestamp(rt), serial, 1))      # bad JSON
                        bad_lines += 1
                    elif k == 3:
                        lg._append('%s\t%d\tnull\n' % (hfiles.timestamp(rt), serial))                  # null data
                        bad_lines += 1
                    else:
                        lg._append('%s\t%d\t"just a note"\n' % (hfiles.timestamp(rt), serial))         # a note
            if g.chance(1, 8, 'torn'):
                lg._append('%s\t%d\t{"4' % (hfiles.timestamp(chunk[-1][0]), chunk[-1][1]))               # torn last line
                bad_lines += 1
            lg.close()
            comp = None
            if suffix and g.chance(1, 3, 'comp?'):
                comp = g.choice(['gz', 'bz2'], 'comp')
                raw = open(path, 'rb').read()
                opener = gzip.open if comp == 'gz' else bz2.open
                with opener(path + '.' + comp, 'wb') as f:
                    f.write(raw)
                if not g.chance(1, 3, 'keepboth'):
                    os.unlink(path)
                stats['compressed'] += 1
            layout.append((suffix, comp, len(chunk), chunk[0][0], chunk[-1][0]))
        stats['corrupt'] = bad_lines
        # the shape of the known finding F3: a file whose records all carry one timestamp, followed by
        # a newer file whose first record carries the same timestamp
        f3_boundary = set()
        for a_, b_ in zip(chunks, chunks[1:]):
            if a_[0][0] == a_[-1][0] and b_[0][0] == a_[-1][0]:
                f3_boundary.add(ms(b_[0][0]))

        # ---------------------------------------------------------------- loader parameters
        first_t, last_t = recs[0][0], recs[-1][0]
        sk = g.draw(5, 'startk')
        if sk == 0:
            start = first_t - 5.0
        elif sk == 1:
            start = g.choice(recs, 'startrec')[0]
        elif sk == 2:
            start = first_t + (last_t - first_t) * g.draw(100, 'startfrac') / 100.0 + 0.0005
        elif sk == 3:
            start = last_t + 10.0
        else:
            start = first_t
        factor = g.choice([1.0, 1.0, 0.1, 10.0, 1000.0, 3.0], 'factor')
        lookahead = g.choice([None, None, 0, 0.5, 5, 3600], 'look')
        limit = g.choice([None, None, 1, 3, 1000], 'limit')
        basis = s.now
        ld = hfiles.loader(name, historical=start, basis=basis, factor=factor, lookahead=lookahead)
        if os.environ.get('C18DBG'):
            import sys
            for fn in sorted(os.listdir(d)):
                opn = gzip.open if fn.endswith('.gz') else bz2.open if fn.endswith('.bz2') else open
                print('FILE', fn, file=sys.stderr)
                for line in opn(os.path.join(d, fn), 'rb'):
                    print('   ', line, file=sys.stderr)
            print('start', hfiles.timestamp(start), 'factor', factor, 'look', lookahead, 'limit', limit, file=sys.stderr)
        # which records must be replayed: from the file the loader has to start in
        # (decided at the first load: the newest file whose first record is at or before the
        # historical time of that call, else the oldest file)
        E = None
        la = lookahead or 0.0

        def hist_time(w):
            return start + (w - basis) * factor

        delivered = []          # (wall time of call, record time ms, values)
        complete_at = None
        span = max(last_t - start, 1.0) / factor
        steps = 0
        past_end = 0
        while steps < params.get('max_steps', 400):
            steps += 1
            # advance the clock: from sub-millisecond to jumps over several files
            k = sch.weighted([(3, 'tiny'), (4, 'frac'), (2, 'big'), (1, 'zero')], 'adv')
            if k == 'tiny':
                s.now += sch.draw(50, 'tiny') / 10000.0
            elif k == 'frac':
                s.now += span * (1 + sch.draw(30, 'frac')) / 100.0
            elif k == 'big':
                s.now += span * (1 + sch.draw(3, 'big'))
            # drain: call load(limit) until it returns no events -- or, sometimes, only once or twice
            # (a caller that takes one batch per tick); lateness is judged after full drains only
            w = s.now
            calls = 0
            partial = sch.chance(1, 4, 'partial') and limit is not None
            max_calls = 1 + sch.draw(2, 'pcalls') if partial else 5000
            if E is None:
                # timestamps compare equal within 1 ms in the library: a first load that close to a
                # file's first record may legitimately start in either file
                cands = []
                for slack in (-EPS, EPS):
                    sc = 0
                    for ci, chunk in enumerate(chunks):
                        if chunk[0][0] <= hist_time(w) + slack:
                            sc = ci
                    if sc not in cands:
                        cands.append(sc)
                E_cands = [[r for chunk in chunks[sc:] for r in chunk] for sc in cands]
                E = E_cands[0]
                first_call_hist = hist_time(w)
            while True:
                calls += 1
                stats['loads'] += 1
                try:
                    cur, events = ld.load(limit=limit)
                except Exception as exc:        # noqa: BLE001
                    violation('c18-load-raised', 'loader.load raised %s: %s' % (type(exc).__name__, exc))
                    events = []
                    break
                st = ld.statename[ld.state]
                stats['states'][st] = stats['states'].get(st, 0) + 1
                for e in events:
                    delivered.append((w, ms(e['timestamp'].value), dict(e['values'])))
                evlog.append((round(w - basis, 6), len(events), st))
                if os.environ.get('C18DBG'):
                    print('LOAD hist=%s' % hfiles.timestamp(hist_time(w)), st, [(str(e['timestamp']), e['values']) for e in events], file=sys.stderr)
                if not events or calls >= max_calls:
                    break
            hw = hist_time(w)
            # never early
            for (cw, tms, vals) in [x for x in delivered if x[0] == w]:
                if tms / 1000.0 > hw + la + EPS:
                    violation('c18-early', 'record at %.3f delivered by a load at historical time %.3f (+%.3f look-ahead): %.3fs early' % (
                        tms / 1000.0, hw, la, tms / 1000.0 - hw - la), factor=factor)
                    break
            # exactly once, in order, as logged: what has been delivered so far is a prefix of E
            got = [(tms, vals) for (_, tms, vals) in delivered]
            if len(E_cands) > 1 and got:
                for ec in E_cands:
                    if (ms(ec[0][0]), ec[0][2]) == got[0]:
                        E = ec
                E_cands = [E]
            want = [(ms(r[0]), r[2]) for r in E]
            i = 0
            while i < min(len(got), len(want)) and got[i] == want[i]:
                i += 1
            bad = None
            if i < len(got):
                kind = 'duplicate' if got[i] in got[:i] else ('skipped' if got[i] in want[i:] else 'foreign')
                bad = (kind, want[i][0] if i < len(want) else got[i][0],
                       'delivery #%d is %r, the log has %r there' % (i, got[i], want[i] if i < len(want) else None))
            elif ld.state != ld.FAILED and not (partial and events):
                # never late: everything due has been delivered by the end of this (full) drain
                due = [r for r in E if r[0] <= hw + la - EPS]
                if len(got) < len(due):
                    bad = ('late', want[len(got)][0], 'after a drain at historical time %.3f (+%.3f look-ahead) %d of %d due records were delivered; '
                           'missing from %.3f' % (hw, la, len(got), len(due), due[len(got)][0]))
            if bad:
                violation('c18-replay-mismatch', '%s: %s; loader %s; files (suffix, compression, records, first, last) %r; first load at historical %.3f, '
                          'factor %s, limit %s' % (bad[0], bad[2], ld.statename[ld.state], layout, first_call_hist, factor, limit),
                          kind=bad[0], f3_boundary=bool(bad[1] in f3_boundary))
                break
            if ld.state == ld.FAILED:
                violation('c18-failed', 'loader went FAILED (start %.3f, files %r, corrupt lines %d)' % (start, layout, bad_lines))
                break
            if ld.state == ld.COMPLETE:
                complete_at = w
                break
            if hw > last_t + la + 1.0 and ld.state != ld.COMPLETE and not partial:
                # bounded liveness: the clock has passed the last record (+ look-ahead); a drain ends at the
                # first load that returns no event, so allow two further drains before demanding COMPLETE
                past_end += 1
                if past_end >= 3:
                    violation('c18-no-completion', 'historical clock %.3f is past the last record %.3f (+%.3f) but the loader is %s after a drain' % (
                        hw, last_t, la, ld.statename[ld.state]), state=ld.statename[ld.state])
                    break
        stats['delivered'] = len(delivered)
        if not violations:
            if complete_at is not None and len(delivered) != len(E):
                violation('c18-replay-mismatch', 'late: COMPLETE after %d of %d records; files %r' % (len(delivered), len(E), layout),
                          kind='late', f3_boundary=bool(ms(E[len(delivered)][0]) in f3_boundary) if len(delivered) < len(E) else False)
            if complete_at is not None and not violations:
                final = {}
                for r in E:
                    for k2, v in r[2].items():
                        final[int(k2)] = v
                have = {k2: v[1] for k2, v in ld.values.items()}
                if have != final:
                    violation('c18-final-map', 'register map at COMPLETE %r, last logged values %r' % (have, final))
        sample = [{'records': nrec, 'files': layout, 'start': round(start - first_t, 3), 'factor': factor, 'lookahead': lookahead,
                   'limit': limit, 'delivered': len(delivered), 'complete': complete_at is not None, 'loads': stats['loads']}]
    finally:
        shutil.rmtree(d, ignore_errors=True)
        _sched.activate(None)
    dg = hashlib.sha256(repr(evlog).encode()).hexdigest()
    return dict(violations=violations, digest=dg, steps=stats['loads'], switches=0, vtime=round(s.now - basis, 3),
                nevents=len(evlog), faults={'CORRUPT_RECORD': stats['corrupt'], 'COMPRESSED_FILE': stats['compressed'],
                                            'EQUAL_TIMESTAMP': stats['equal_ts']},
                probes=stats['states'], preempts=0, sig=dg[:16], uncaught=[], policy='clock', notes=stats, sample=sample,
                nontrivial=bool(stats['delivered'] >= 1 or violations))
