"""STREAM / TNET worlds: one automaton fed by a scheduled chunk-arrival process.

  c10  a length limit bounds what a nested parser may consume; consumed-symbol accounting across
       push-backs and chained blocks; repeat counts (stream part)
  c20  streaming tnetstring parser agrees with tnetstrings.dump/parse for every arrival schedule;
       tnet_from over a simulated socket under the virtual clock
"""
import struct

from sim import install
from sim.runner import world
from sim.sched import Waiter
from sim.simnet import SimSocket
from ref import refcodec as rc


def canon(x):
    """A comparable rendering of a parsed dotdict / value."""
    import array
    if isinstance(x, dict):
        return {k: canon(v) for k, v in sorted(dict.items(x))}
    if isinstance(x, (list, tuple)):
        return [canon(v) for v in x]
    if isinstance(x, array.array):
        return ('arr', x.tobytes().hex())
    if isinstance(x, (bytes, bytearray)):
        return ('b', bytes(x).hex())
    if isinstance(x, float):
        return ('f', struct.pack('<d', x).hex())
    return x


def drive(m, machine, data, chunks, path=None, init=None, eof='stop', supply_log=None):
    """Run `machine` over a chainable source that receives `chunks` one at a time, each only when
    the machine reports that it cannot proceed.  Returns an observation dict."""
    automata = m['automata']
    dotdict = m['dotdict'].dotdict
    source = automata.chainable()
    d = dotdict(init or {})
    supplied = 0
    pending = list(chunks)
    exc = None
    starved = 0
    yields = 0
    try:
        with machine as mach:
            engine = mach.run(source=source, data=d, path=path)
            try:
                for mch, sta in engine:
                    yields += 1
                    if yields > 200000:
                        exc = 'RunawayYields'
                        break
                    if sta is not None:
                        continue
                    if source.peek() is not None:
                        # a symbol is waiting but nobody transitions on it: the machine is done with it
                        starved += 1
                        if starved > 3:
                            break
                        continue
                    if pending:
                        c = pending.pop(0)
                        source.chain(c)
                        supplied += len(c)
                        starved = 0
                    else:
                        starved += 1
                        if eof == 'typeerror' and starved == 1:
                            source.chain(None)      # a non-iterable ends consumers with TypeError
                        if starved > 3:
                            break
            finally:
                engine.close()
            terminal = bool(mach.terminal)
    except Exception as e:          # noqa: BLE001 - the machine failing is an outcome, not a harness error
        exc = type(e).__name__
        terminal = False
    sent = source.sent
    left = []
    try:
        for sym in source:
            left.append(sym)
    except TypeError:
        pass
    return dict(terminal=terminal, exc=exc, sent=sent, supplied=supplied, left=bytes(bytearray(left)),
                unsupplied=b''.join(pending), data=canon(d), yields=yields)


def chunkings(tape, data, mode=None):
    """Cut `data` into an arrival schedule (list of byte blocks, may contain empty blocks)."""
    n = len(data)
    mode = mode or tape.choice(['whole', 'bytes', 'random', 'random', 'two'], 'cmode')
    if mode == 'whole' or n < 2:
        return [data], mode
    if mode == 'bytes':
        return [data[i:i + 1] for i in range(n)], mode
    if mode == 'two':
        c = 1 + tape.draw(n - 1, 'c2')
        return [data[:c], data[c:]], mode
    k = 1 + tape.draw(min(8, n - 1), 'nc')
    cuts = sorted(set(1 + tape.draw(n - 1, 'cut') for _ in range(k)))
    out = []
    prev = 0
    for c in cuts:
        out.append(data[prev:c])
        prev = c
    out.append(data[prev:])
    if mode == 'empties':
        res = []
        for o in out:
            if tape.draw(2, 'emp'):
                res.append(b'')
            res.append(o)
        out = res
    return out, mode


# ---------------------------------------------------------------------------- machine catalogue
def identity_bytes(g):
    """Reference encoding of the List Identity item payload (version, socket address, identity)."""
    name = b'Sim' + b'x' * g.choice([0, 1, 4, 20], 'idn')
    e = struct.pack('<H', 1) + struct.pack('>hH4s8s', 2, 44818, bytes([10, 0, 0, 1 + g.draw(9, 'ida')]), b'\0' * 8)
    e += struct.pack('<HHHHHI', 1, 0x0E, 0x36, 0x0B14, 0x0030, 0x12345678 + g.draw(9, 'ids')) + bytes([len(name)]) + name
    if g.draw(3, 'idstate'):
        e += b'\x03'
    return e


def catalogue(m, g):
    """-> (label, factory() -> fresh machine, element bytes E, self_delimiting, init data, path)"""
    P = m['parser']
    k = g.draw(15, 'mach')
    if k == 0:
        tn = g.choice(['USINT', 'SINT', 'UINT', 'INT', 'UDINT', 'DINT', 'ULINT', 'LINT', 'REAL', 'LREAL', 'BOOL'], 'tt')
        v = {'REAL': 1.5, 'LREAL': -2.25, 'BOOL': True}.get(tn, 1 + g.draw(100, 'tv'))
        return tn, lambda **kw: getattr(P, tn)(context='v', terminal=True, **kw), rc.enc_elems(tn, [v]), True, None, None
    if k == 1:
        s = 'x' * g.choice([0, 1, 2, 5, 8, 31], 'sl')
        return 'SSTRING', lambda **kw: P.SSTRING(terminal=True, **kw), rc.enc_elems('SSTRING', [s]), True, None, None
    if k == 2:
        s = 'y' * g.choice([0, 1, 2, 5, 8, 33], 'sl')
        return 'STRING', lambda **kw: P.STRING(terminal=True, **kw), rc.enc_elems('STRING', [s]), True, None, None
    if k in (3, 4):
        segs = []
        for _ in range(g.between(0, 4, 'nseg')):
            sk = g.draw(6, 'sk')
            if sk == 0:
                segs.append(('symbolic', 'ab' * g.draw(4, 'sym') + 'c' * g.draw(2, 'odd')))
            elif sk == 1:
                segs.append(('class', g.choice([2, 0x1234], 'cv')))
            elif sk == 2:
                segs.append(('instance', g.choice([1, 300], 'iv')))
            elif sk == 3:
                segs.append(('attribute', g.choice([3, 400], 'av')))
            elif sk == 4:
                segs.append(('element', g.choice([0, 7, 70000, 300], 'ev')))
            else:
                segs.append(('port', g.choice([1, 14, 20], 'pv'), g.choice([0, 9, '1.2.3.4', '10.0.0.10'], 'lv')))
        segs = [sg for sg in segs if not (sg[0] == 'symbolic' and not sg[1])]
        if k == 3:
            return 'EPATH', lambda **kw: P.EPATH(terminal=True, **kw), rc.epath(segs), True, None, None
        return 'EPATH_padded', lambda **kw: P.EPATH_padded(terminal=True, **kw), rc.epath(segs, padded_size=True), True, None, None
    if k == 5:
        n = g.draw(4, 'next')
        e = struct.pack('<BB', g.choice([0, 5, 0xFF], 'st'), n) + b''.join(struct.pack('<H', 0x2100 + i) for i in range(n))
        return 'status', lambda **kw: P.status(terminal=True, **kw), e, True, None, None
    if k == 6:
        tn = g.choice(['INT', 'DINT', 'REAL', 'USINT', 'LINT', 'SSTRING'], 'tdt')
        vals = ['s%d' % i for i in range(3)] if tn == 'SSTRING' else ([1.5, 2.5, -3.0] if tn == 'REAL' else [1, 2, 3])
        code = rc.TYPE_CODE[tn]
        return 'typed_data/' + tn, lambda **kw: P.typed_data(tag_type=code, context='td', terminal=True, **kw), rc.enc_elems(tn, vals), False, None, None
    if k == 7:
        items = []
        for _ in range(g.between(0, 3, 'nit')):
            ik = g.draw(3, 'ik')
            if ik == 0:
                items.append((0x0000, b''))
            elif ik == 1:
                items.append((0x00A1, struct.pack('<I', 0x1234 + g.draw(9, 'cid'))))
            else:
                items.append((0x00B2, rc.req_read_tag(rc.tag_path(name='ab'), 1)))
        if g.chance(1, 3, 'idit'):
            # a List Identity item (its parser ends with a greedy "extra" state: only the item's
            # length keeps it from swallowing the items behind it)
            items.insert(g.draw(len(items) + 1, 'idpos'), (0x000C, identity_bytes(g)))
        return 'CPF', lambda **kw: P.CPF(terminal=True, **kw), rc.cpf(items), True, None, None
    if k == 8:
        msg = rc.req_read_tag(rc.tag_path(name='ab' + 'c' * g.draw(2, 'o')), 1)
        route = [('port', 1, 0)] if g.draw(2, 'r') else []
        return 'unconnected_send', lambda **kw: P.unconnected_send(terminal=True, **kw), rc.unconnected_send(msg, route), True, None, None
    if k == 9:
        body = rc.send_rr(0x1234, rc.unconnected_send(rc.req_read_tag(rc.tag_path(name='tag'), 1), []), b'ctx12345')
        if g.draw(2, 'reg'):
            body = rc.register(b'ABCDEFGH')
        return 'enip_machine', lambda **kw: P.enip_machine(context='enip', terminal=True, **kw), body, True, None, None
    if k == 10:
        fr = rc.send_rr(0x1234, rc.unconnected_send(rc.req_read_tag(rc.tag_path(name='tag'), 1), []), b'ctx12345')
        cmd, ln = struct.unpack_from('<HH', fr, 0)
        return 'CIP', lambda **kw: P.CIP(terminal=True, **kw), fr[24:], True, {'command': cmd, 'length': ln}, None
    if k == 11:
        n = g.choice([1, 2, 3, 7], 'on')
        return 'octets', lambda **kw: P.octets(context='o', repeat=n, terminal=True, **kw), bytes(range(1, n + 1)), True, None, None
    if k == 12:
        dev = m['logix'].Logix
        kind = g.draw(4, 'rk')
        if kind == 0:
            e = rc.req_read_tag(rc.tag_path(name='Tag', element=3), 2)
            sd = True
        elif kind == 1:
            e = rc.req_read_frag(rc.tag_path(name='Tag'), 5, 8)
            sd = True
        elif kind == 2:
            e = rc.req_write_tag(rc.tag_path(name='Tag'), 'INT', [1, 2, 3])
            sd = False
        else:
            e = rc.req_get_attr_single([('class', 2), ('instance', 1), ('attribute', 3)])
            sd = True
        return 'Object.parser', lambda **kw: dev.parser, e, sd, None, None
    if k == 14:
        return 'identity_object', lambda **kw: P.identity_object(terminal=True, **kw), identity_bytes(g), False, None, None
    n = g.choice([1, 2, 4], 'wn')
    return 'words', lambda **kw: P.words(context='w', repeat=n, terminal=True, **kw), bytes(range(1, 2 * n + 1)), True, None, None


@world('c10')
def c10(tapes, params):
    m = install.install()
    g, sch = tapes.gen, tapes.sch
    automata = m['automata']
    violations = []
    samples = []
    stats = {'cases': 0, 'limited_ok': 0, 'limited_fail': 0, 'repeat_ok': 0, 'eof_cases': 0, 'machines': {}}
    digest_parts = []

    def violation(cls, msg, **key):
        violations.append(dict(cls=cls, msg=str(msg)[:1500], key=key))

    # configuration knob: the logging threshold (the parsing core has code that only runs, or is
    # skipped, when INFO/DEBUG logging is enabled); records go to a null handler
    loglevel = params.get('loglevel') or g.weighted([(6, 0), (1, 20), (1, 10), (1, 25)], 'loglevel')
    if loglevel:
        import logging
        logging.disable(logging.NOTSET)
        root = logging.getLogger()
        root.handlers[:] = [logging.NullHandler()]
        root.setLevel(loglevel)
    stats['loglevel'] = loglevel
    ncases = g.between(4, params.get('max_cases', 16), 'ncases')
    for case in range(ncases):
        label, factory, E, selfdelim, init, path = catalogue(m, g)
        stats['machines'][label.split('/')[0]] = stats['machines'].get(label.split('/')[0], 0) + 1
        tail = bytes(g.draw(256, 'tb') for _ in range(g.choice([0, 1, 3, 9], 'tl')))
        mode = g.weighted([(4, 'limit'), (3, 'repeat'), (2, 'plain'), (1, 'eof'), (3, 'both')], 'mode')
        # counted repetition inside a limit is judged only for fixed-size elements (elementary types, octets,
        # words): they accept neither an empty nor a truncated sentence, so "completed" means N whole elements
        FIXED = ('USINT', 'SINT', 'UINT', 'INT', 'UDINT', 'DINT', 'ULINT', 'LINT', 'REAL', 'LREAL', 'BOOL', 'octets', 'words')
        if mode == 'both' and label not in FIXED:
            mode = 'repeat'
        n = len(E)
        wrap_kw = {}
        reps = 1
        if mode == 'limit':
            L = g.choice(sorted(set([0, max(n // 2, 0), max(n - 1, 0), n, n + 1, n + len(tail) + 5])), 'L')
            lk = g.draw(3, 'lkind')
            if lk == 0:
                wrap_kw['limit'] = L
            elif lk == 1:
                wrap_kw['limit'] = 'lim'              # a data path parsed "earlier in the same message"
                init = dict(init or {}, lim=L)
            else:
                wrap_kw['limit'] = (lambda L: (lambda **kw: L))(L)
            stream = E + tail
        elif mode == 'repeat':
            reps = g.choice([0, 1, 2, 3, 5], 'R')
            rk = g.draw(2, 'rkind')
            if rk == 0:
                wrap_kw['repeat'] = reps
            else:
                wrap_kw['repeat'] = 'cnt'
                init = dict(init or {}, cnt=reps)
            extra = g.choice([0, 0, 1], 'xtra')         # sometimes one more element than repeats follows
            stream = E * (reps + extra) + tail
            L = None
        elif mode == 'both':
            # a counted repetition inside a limit: [count elements] followed by a non-consuming
            # transition to a terminal state, the whole bounded by a limit that may end on an element
            # boundary before the count is reached
            reps = g.choice([1, 2, 3, 5], 'R')
            kcut = g.draw(reps + 2, 'kcut')
            L = g.choice([kcut * n, kcut * n, max(kcut * n - 1, 0), kcut * n + 1], 'Lboth')
            stream = E * (reps + 1) + tail
        else:
            stream = E + tail
            L = None
        if mode == 'eof':
            cut = g.draw(max(n, 1), 'eofcut')
            stream = E[:cut]
            stats['eof_cases'] += 1

        # the limit is given either to a wrapping dfa or to the machine's own constructor
        direct = mode == 'limit' and label != 'Object.parser' and not isinstance(wrap_kw['limit'], str) and g.chance(1, 3, 'direct')

        def mk():
            if direct:
                return factory(**wrap_kw)
            if mode == 'both':
                rep = automata.dfa('rep', initial=factory(), repeat=reps)
                rep[None] = automata.state('done', terminal=True)
                return automata.dfa('lim', initial=rep, limit=L, terminal=True)
            return automata.dfa('lim', initial=factory(), terminal=True, **wrap_kw)

        eofmode = 'typeerror' if (mode == 'eof' and sch.draw(2, 'te')) else 'stop'

        observations = []
        for variant in range(2):
            chunks, cm = chunkings(sch, stream, 'whole' if variant == 0 else None)
            try:
                obs = drive(m, mk(), stream, chunks, path=path, init=init, eof=eofmode)
            except Exception as e:      # noqa: BLE001
                violations.append(dict(cls='harness', msg='drive failed: %r' % (e,), key={}))
                continue
            obs['chunks'] = cm
            observations.append(obs)
            stats['cases'] += 1
            # (a) accounting: what the framework reports as consumed == what was taken from the input
            if obs['sent'] != obs['supplied'] - len(obs['left']):
                violation('c10-accounting', '%s %s %r: source.sent=%d but %d symbols supplied and %d left in the source (%s chunks)' % (
                    label, mode, wrap_kw, obs['sent'], obs['supplied'], len(obs['left']), cm), machine=label.split('/')[0])
            consumed_bytes = stream[:obs['supplied']]
            if obs['sent'] >= 0 and obs['left'] != consumed_bytes[obs['sent']:]:
                violation('c10-input-damaged', '%s %s: after consuming %d symbols the source holds %s, the input there is %s' % (
                    label, mode, obs['sent'], obs['left'][:24].hex(), consumed_bytes[obs['sent']:][:24].hex()), machine=label.split('/')[0])
            ok = obs['terminal'] and obs['exc'] is None
            # (b) limit
            if mode == 'limit':
                if ok:
                    stats['limited_ok'] += 1
                    if obs['sent'] > L:
                        violation('c10-limit-exceeded', '%s with %s limit %d (%r) completed having consumed %d symbols of %s' % (
                            label, 'its own' if direct else 'a wrapping', L, wrap_kw['limit'], obs['sent'], stream.hex()[:80]), machine=label.split('/')[0])
                else:
                    stats['limited_fail'] += 1
            # (b') a self-delimiting element takes exactly its own bytes and nothing of what follows
            if ok and selfdelim and (mode == 'plain' or (mode == 'limit' and L >= n)) and obs['sent'] != n:
                violation('c10-wrong-extent', '%s (%s%s) consumed %d symbols of %s; the element is %d bytes long' % (
                    label, mode, '' if mode == 'plain' else ' %d%s' % (L, ' direct' if direct else ''), obs['sent'], stream.hex()[:100], n),
                    machine=label.split('/')[0])
            if mode == 'both' and ok:
                stats['limited_ok'] += 1
                if obs['sent'] > L:
                    violation('c10-limit-exceeded', '%s x%d inside limit %d completed having consumed %d symbols' % (label, reps, L, obs['sent']),
                              machine=label.split('/')[0])
                if obs['sent'] != reps * n:
                    violation('c10-repeat-count', '%s repeat=%d inside limit %d (element %d bytes): completed successfully after %d symbols = %s repetitions' % (
                        label, reps, L, n, obs['sent'], obs['sent'] / float(n)), machine=label.split('/')[0], mode='both')
            # (c) repeat: exactly that many sub-sentences (self-delimiting elements, enough input)
            if mode == 'repeat' and selfdelim and label != 'Object.parser':
                if ok:
                    stats['repeat_ok'] += 1
                    if obs['sent'] != reps * n and n > 0:
                        violation('c10-repeat-count', '%s repeat=%d (%r): consumed %d symbols, one element is %d' % (
                            label, reps, wrap_kw['repeat'], obs['sent'], n), machine=label.split('/')[0])
                elif n > 0 and obs['exc'] not in (None,) and False:
                    pass
        # (d) metamorphic: same outcome for every arrival schedule
        if len(observations) == 2:
            a, b = observations
            ka = (a['terminal'], a['exc'], a['sent'], a['data'])
            kb = (b['terminal'], b['exc'], b['sent'], b['data'])
            if ka != kb and not (a['exc'] and b['exc']):
                violation('c10-chunking-dependent', '%s %s %r over %s: whole -> terminal=%s exc=%s sent=%d; %s -> terminal=%s exc=%s sent=%d; data equal: %s' % (
                    label, mode, wrap_kw, stream.hex()[:80], a['terminal'], a['exc'], a['sent'], b['chunks'], b['terminal'], b['exc'], b['sent'],
                    a['data'] == b['data']), machine=label.split('/')[0])
        if observations:
            digest_parts.append((label, mode, repr(wrap_kw.get('limit') if not callable(wrap_kw.get('limit')) else 'fn'),
                                 observations[-1]['terminal'], observations[-1]['exc'], observations[-1]['sent']))
            if len(samples) < 6:
                samples.append({'machine': label, 'mode': mode, 'limit': L, 'repeat': reps if mode == 'repeat' else None,
                                'input': stream.hex()[:60], 'chunks': observations[-1]['chunks'],
                                'terminal': observations[-1]['terminal'], 'exc': observations[-1]['exc'], 'sent': observations[-1]['sent']})
    import hashlib
    dg = hashlib.sha256(repr(digest_parts).encode()).hexdigest()
    return dict(violations=violations, digest=dg, steps=stats['cases'], switches=0, vtime=0.0, nevents=stats['cases'],
                faults={'EOF_MIDSTREAM': stats['eof_cases']}, probes=stats['machines'], preempts=0, sig=dg[:16], uncaught=[],
                policy='stream', notes=stats, sample=samples,
                nontrivial=bool(stats['cases'] >= 4 or violations))


# ---------------------------------------------------------------------------- C20
def gen_tnet_value(g, n, allow_null=True):
    """A value of the types the streaming machine supports: bytes, text, integer, null."""
    k = g.draw(8 if allow_null else 7, 'vk')
    if k == 0:
        return g.choice([0, 1, -1, 12345678901234567890, -987654321, 10 ** 30], 'iv') + n
    if k == 1:
        # payload bytes that look like the protocol's own delimiters
        return g.choice([b'5:hello,', b':', b',', b'#', b'0:~', b'3:', b'12', b'10:', b'}', b']'], 'tricky') * (1 + g.draw(3, 'rep'))
    if k == 2:
        return b''
    if k == 3:
        return bytes(g.draw(256, 'bb') for _ in range(g.choice([1, 2, 9, 10, 11, 99, 100, 101], 'bl')))
    if k == 4:
        return g.choice(['', 'text', 'héllo', '日本語', 'a:b,c', '\U0001F600 x', '12:', '\ufeff', '\ufeffbom first', 'x\ufeff'], 'tv') + str(n)
    if k == 5:
        return bytes([n & 0xFF]) * g.choice([1000, 10000], 'big')
    if k == 6:
        return n
    return None


@world('c20')
def c20(tapes, params):
    m = install.install()
    tnet, tns = install.install_tnet()
    g, sch = tapes.gen, tapes.sch
    automata = m['automata']
    violations = []
    samples = []
    stats = {'stream_values': 0, 'socket_values': 0, 'timeouts_seen': 0, 'eof_mid_message': 0, 'chunks': 0}
    log = []

    def violation(cls, msg, **key):
        violations.append(dict(cls=cls, msg=str(msg)[:1500], key=key))

    # ---- (0) the reference itself: the streaming oracle below trusts tnetstrings.dump/parse, so every
    # run first checks that pair on values of all serialisable types (plain seeded input generation riding
    # along -- no schedule is involved; see DESIGN 4/C20)
    def gen_any(depth):
        k = g.draw(10 if depth < 3 else 7, 'ak')
        if k == 0:
            return g.choice([0, -1, 7, 10 ** 25, -10 ** 19], 'ai') + g.draw(5, 'aj')
        if k == 1:
            return g.choice([0.0, -0.0, 0.5, 0.1 + 0.2, 2.3, 1e22, 1e16, 1.5e-05, 1e-10, -1.234e-05, 3.141592653589793e-7,
                             1e300, 5e-324, float('inf'), -2.5e-9], 'af')
        if k == 2:
            return bool(g.draw(2, 'ab'))
        if k == 3:
            return None
        if k == 4:
            return g.choice([b'', b'3:abc,', b':', b'}]', b'\x00\xff', b'12:'], 'aby')
        if k in (5, 6):
            return g.choice(['', 'text', 'h\u00e9llo', '\u65e5\u672c', 'a:b,c', '\ufeffbom', '\ufeff'], 'at')
        if k in (7, 8):
            return [gen_any(depth + 1) for _ in range(g.draw(4, 'aln'))]
        return {g.choice(['k', 'key2', 'a b', '9'], 'dk') + str(i): gen_any(depth + 1) for i in range(g.draw(3, 'adn'))}

    def same(a, b):
        if type(a) is not type(b):
            return False
        if isinstance(a, float):
            return repr(a) == repr(b)
        if isinstance(a, list):
            return len(a) == len(b) and all(same(x, y) for x, y in zip(a, b))
        if isinstance(a, dict):
            return sorted(a) == sorted(b) and all(same(a[x], b[x]) for x in a)
        return a == b
    for _ in range(g.between(1, 6, 'nany')):
        v = gen_any(0)
        try:
            e = tns.dump(v)
            back, rest = tns.parse(e)
        except Exception as exc:        # noqa: BLE001
            violation('c20-reference-roundtrip', 'tnetstrings dump/parse raised %s for %r' % (exc, v))
            continue
        stats['reference_values'] = stats.get('reference_values', 0) + 1
        if rest != b'' or not same(back, v):
            violation('c20-reference-roundtrip', 'tnetstrings.parse(dump(%r)) == %r (rest %r): the serialised form was %r' % (v, back, rest, e[:80]),
                      vtype=type(v).__name__)
        # the same pair under a caller-chosen text encoding (a parameter of both functions)
        enc = g.choice([None, None, 'latin-1', 'utf-16', 'cp1252'], 'aenc')
        if enc is not None:
            def texts(x):
                if isinstance(x, str):
                    yield x
                elif isinstance(x, list):
                    for y in x:
                        yield from texts(y)
                elif isinstance(x, dict):
                    for y in x.values():
                        yield from texts(y)
            try:
                for t in texts(v):
                    t.encode(enc)
            except UnicodeError:
                enc = None
        if enc is not None:
            try:
                e2 = tns.dump(v, encoding=enc)
                back2, rest2 = tns.parse(e2, encoding=enc)
            except Exception as exc:        # noqa: BLE001
                violation('c20-reference-roundtrip', 'tnetstrings dump/parse with encoding=%r raised %s: %s for %r' % (
                    enc, type(exc).__name__, exc, v), vtype='encoding')
                continue
            if rest2 != b'' or not same(back2, v):
                violation('c20-reference-roundtrip', 'tnetstrings.parse(dump(%r, encoding=%r), encoding=%r) == %r (rest %r)' % (
                    v, enc, enc, back2, rest2), vtype='encoding')

    # ---- (a) STREAM: tnet_machine on a scheduled chunk arrival, one value after another + tail
    nvals = g.between(1, params.get('max_values', 10), 'nvals')
    vals = [gen_tnet_value(g, i) for i in range(nvals)]
    encs = []
    for v in vals:
        e = tns.dump(v)
        back, rest = tns.parse(e)
        if rest != b'' or back != v or type(back) is not type(v):
            # the pure round trip is not claimed here; a value failing it is not used as reference
            continue
        encs.append((v, e))
    for v, e in encs:
        tail = bytes(g.draw(256, 'tb') for _ in range(g.choice([0, 1, 4], 'tl')))
        if g.draw(3, 'nexttail') == 0:
            tail = tns.dump(g.draw(100, 'nv')) + tail
        stream = e + tail
        chunks, cm = chunkings(sch, stream)
        obs = drive(m, tnet.tnet_machine(), stream, chunks)
        stats['stream_values'] += 1
        stats['chunks'] += len(chunks)
        log.append((cm, obs['terminal'], obs['exc'], obs['sent']))
        if not obs['terminal'] or obs['exc']:
            violation('c20-stream-refused', 'tnet_machine did not accept %r (%s, %s chunks): terminal=%s exc=%s sent=%d' % (
                e[:60], type(v).__name__, cm, obs['terminal'], obs['exc'], obs['sent']), vtype=type(v).__name__)
            continue
        if obs['sent'] != len(e):
            violation('c20-stream-length', 'tnet_machine consumed %d symbols of a %d-byte message %r followed by %r (%s chunks)' % (
                obs['sent'], len(e), e[:40], tail[:8], cm), vtype=type(v).__name__)
        if obs['sent'] != obs['supplied'] - len(obs['left']) or obs['left'] != stream[obs['sent']:obs['supplied']]:
            violation('c20-accounting', 'after %r: sent=%d supplied=%d left=%r' % (e[:40], obs['sent'], obs['supplied'], obs['left'][:16]))
        got = obs['data'].get('tnet', {}).get('type', {}).get('input') if isinstance(obs['data'], dict) else None
        want = canon(v)
        if got != want:
            violation('c20-stream-payload', 'tnet_machine payload %r, tnetstrings.parse gives %r (%s chunks)' % (
                got if not isinstance(got, tuple) else got[1][:60], want if not isinstance(want, tuple) else want[1][:60], cm),
                vtype=type(v).__name__)
        if len(samples) < 4:
            samples.append({'value': repr(v)[:40], 'encoded': e[:30].hex(), 'chunks': cm, 'sent': obs['sent']})

    # ---- (b) TNET: tnet_from over a simulated socket, delayed chunked delivery, virtual clock
    from sim.install import new_world
    s, net = new_world(sch, policy='random', max_steps=20000, max_time=3600.0)
    svals = [gen_tnet_value(g, 100 + i, allow_null=False) for i in range(g.between(1, 6, 'nsv'))]
    svals = [v for v in svals if not (isinstance(v, bytes) and len(v) > 2000)]
    timeout = g.choice([None, 0.5, 2.0, 0.05], 'tmo')
    latency = g.choice([None, 0.1, 1.0], 'lat')
    ignore = g.choice([None, b'\n', b'\n '], 'ign')
    cut_last = g.chance(1, 3, 'cutlast')          # EOF in the middle of the last message
    got = []
    got2 = []
    svals2 = [gen_tnet_value(g, 200 + i, allow_null=False) for i in range(g.between(1, 3, 'nsv2'))] if g.chance(1, 2, 'sess2') else []
    svals2 = [v for v in svals2 if not (isinstance(v, bytes) and len(v) > 2000)]
    # the first session's consumer may stop after one message although more arrived in the same segment
    early_stop = bool(svals2) and len(svals) >= 2 and g.chance(1, 2, 'earlystop')
    if early_stop:
        cut_last = False
    times = []
    sends = []
    state = {'done': False, 'err': None, 'err2': None}

    def server():
        lst = SimSocket(net)
        lst.bind(('127.0.0.1', 8008))
        lst.listen(5)
        conn, addr = lst.accept()
        try:
            for msg in tnet.tnet_from(conn, addr, timeout=timeout, latency=latency, ignore=ignore):
                got.append(msg)
                times.append(s.now)
                if len(got) > 60000:
                    break
                if early_stop and msg is not None:
                    break           # the consumer has what it wanted; further (pipelined) input is abandoned
        except Exception as exc:        # noqa: BLE001
            state['err'] = '%s: %s' % (type(exc).__name__, exc)
        # a second session of the same process (after the first ended, possibly inside a message): it must
        # yield exactly its own messages -- nothing of the first session's input may be left anywhere
        if svals2:
            try:
                conn2, addr2 = lst.accept()
                for msg in tnet.tnet_from(conn2, addr2, timeout=None, latency=latency, ignore=ignore):
                    got2.append(msg)
                    if len(got2) > 1000:
                        break
            except Exception as exc:        # noqa: BLE001
                state['err2'] = '%s: %s' % (type(exc).__name__, exc)
        state['done'] = True

    def client():
        c = SimSocket(net)
        s.block(Waiter(cond=lambda: 8008 in net.listeners, why='await-listen'))
        c.connect(('127.0.0.1', 8008))
        if early_stop:
            c.send(b''.join(tns.dump(v) for v in svals))        # everything in one segment
            sends.append((s.now, 0))
        for i, v in enumerate(svals if not early_stop else []):
            e = tns.dump(v)
            if ignore and g.draw(2, 'sep'):
                e = e + ignore[:1] * (1 + g.draw(2, 'nsep'))
            last = i == len(svals) - 1
            if last and cut_last and len(e) > 1:
                e = e[:1 + sch.draw(len(tns.dump(v)) - 1, 'cutat')]
                stats['eof_mid_message'] += 1
            parts, cm = chunkings(sch, e, 'random' if len(e) > 300 else None)
            for p in parts:
                if p:
                    c.send(p)
                    sends.append((s.now, len(p)))
                gap = sch.weighted([(5, 0.0), (2, 0.01), (1, 0.3), (1, 3.0 if (timeout is None or timeout >= 0.5) else 0.6)], 'gap')
                if gap:
                    s.sleep(gap)
        s.sleep(sch.choice([0.0, 0.2, 5.0], 'linger'))
        c.close()
        if svals2:
            c2 = SimSocket(net)
            c2.connect(('127.0.0.1', 8008))
            for v in svals2:
                for p in chunkings(sch, tns.dump(v))[0]:
                    if p:
                        c2.send(p)
            s.sleep(0.1)
            c2.close()

    ts = s.spawn(server, 'tnet_server')
    tc = s.spawn(client, 'tnet_client')
    s.stop_when = lambda: ts._sim_state == 'done' and tc._sim_state == 'done'
    s.run(wall_timeout=100)
    if s.failure:
        violation('liveness-' + s.failure[0].lower(), 'tnet_from: %s %r' % (s.failure[0], s.failure[1]))
    was_cut = bool(cut_last and svals and len(tns.dump(svals[-1])) > 1)
    if state['err'] and not was_cut:
        # (a message cut by EOF may end the stream with an error; that is a way of yielding no value)
        violation('c20-socket-exception', 'tnet_from (timeout=%r latency=%r ignore=%r) raised %s' % (timeout, latency, ignore, state['err']))
    want = svals[:-1] if was_cut else svals
    if early_stop:
        want = svals[:1]
    msgs = [x for x in got if x is not None]
    nones = len(got) - len(msgs)
    stats['socket_values'] = len(msgs)
    stats['timeouts_seen'] = nones
    if [canon(x) for x in msgs] != [canon(x) for x in want]:
        violation('c20-socket-values', 'tnet_from (timeout=%r latency=%r ignore=%r cut_last=%s) yielded %r; sent %r' % (
            timeout, latency, ignore, cut_last, [repr(x)[:30] for x in msgs][:8], [repr(x)[:30] for x in want][:8]))
    if svals2:
        stats['socket_values'] += len(got2)
        if state['err2'] or [canon(x) for x in got2] != [canon(x) for x in svals2]:
            violation('c20-second-session', 'a second tnet_from session (after the first ended%s) yielded %r%s; sent %r' % (
                ' inside a message' if was_cut else '', [repr(x)[:30] for x in got2][:6],
                ' and raised ' + state['err2'] if state['err2'] else '', [repr(x)[:30] for x in svals2][:6]))
    if nones and timeout is None:
        violation('c20-spurious-none', 'tnet_from yielded None %d times although no timeout was requested' % nones)
    if timeout is not None and nones:
        # a None needs a gap of at least `timeout` without a complete message
        prev = s.start_time
        for x, t in zip(got, times):
            if x is None and t - prev < timeout - 1e-6:
                violation('c20-early-timeout', 'tnet_from yielded None %.3fs after the previous yield/start; timeout is %.3fs' % (t - prev, timeout))
                break
            prev = t
    import hashlib
    dg = hashlib.sha256((repr(log) + s.digest()).encode()).hexdigest()
    samples.append({'socket_values': [repr(x)[:30] for x in svals][:4], 'timeout': timeout, 'latency': latency,
                    'ignore': repr(ignore), 'cut_last': cut_last, 'yielded': len(got), 'timeouts': nones})
    return dict(violations=violations, digest=dg, steps=s.steps, switches=s.switches, vtime=round(s.now - s.start_time, 6),
                nevents=s.nevents, faults={'EOF_MID_MESSAGE': stats['eof_mid_message'], 'TIMEOUT_GAP': nones},
                probes={}, preempts=0, sig=s.sched_sig.hexdigest()[:16], uncaught=s.uncaught, policy='random', notes=stats,
                sample=samples, nontrivial=bool(stats['stream_values'] + stats['socket_values'] >= 2 or violations))
